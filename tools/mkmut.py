#!/venv/bin/python
"""
Create a mutant patch from exact string replacements.

    tools/mkmut.py mutants/C03-msb.patch src/pyrtcm/rtcmmessage.py 'old' 'new' [file old new ...]

The patch is a unified diff relative to /repo (apply with patch -p1 / git apply).
"""
import difflib
import sys


def main():
    out = sys.argv[1]
    triples = sys.argv[2:]
    assert len(triples) % 3 == 0 and triples
    bufs = {}
    for i in range(0, len(triples), 3):
        f, old, new = triples[i : i + 3]
        old = old.encode().decode("unicode_escape")
        new = new.encode().decode("unicode_escape")
        if f not in bufs:
            src = open(f"/repo/{f}", encoding="utf-8", newline="").read()
            bufs[f] = [src, src]
        if "\r\n" in bufs[f][0]:
            old = old.replace("\n", "\r\n")
            new = new.replace("\n", "\r\n")
        cur = bufs[f][1]
        if cur.count(old) != 1:
            sys.exit(f"{f}: {cur.count(old)} occurrences of {old!r}")
        bufs[f][1] = cur.replace(old, new)
    text = ""
    for f, (a, b) in bufs.items():
        text += "".join(
            difflib.unified_diff(a.splitlines(True), b.splitlines(True), f"a/{f}", f"b/{f}")
        )
    open(out, "w", encoding="utf-8", newline="").write(text)
    print(f"wrote {out} ({len(text.splitlines())} lines)")


if __name__ == "__main__":
    main()
