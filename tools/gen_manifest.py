#!/venv/bin/python
"""Regenerate /verif/MANIFEST.json from the table below (kept in one place)."""
import json
import os

VERIF = os.path.dirname(os.path.dirname(os.path.abspath(__file__)))

# id -> (level, engine, technique, level text, level note)
CHECKS = {
    "C01": ("model_checking", "E1",
            "stateless deviation-bounded exploration of the real reader over enumerated hostile "
            "streams x injected short/empty reads",
            "every item sequence up to the depth bound over the hostile stream alphabet and every "
            "byte string over the sync-dense byte alphabet, each with every placement of <= k read "
            "faults, is executed on the real RTCMReader through a recording/fault-injecting stream "
            "double; every returned pair is checked against the source bytes and a reference frame "
            "test; plus histories of 2-3 socket connections in one process (each reader's pairs must come from "
            "its own stream, every bufsize 1..33), seekable fault-injecting streams, junk-insertion / strip / "
            "false-header items, and all depth-bounded mixes of read()/next()/for/iter() on seekable streams; "
            "states = distinct (cursor, reader attribute snapshot) between read() calls",
            "stream items and byte alphabet are representatives; fault count bounded"),
    "C02": ("model_checking", "E1",
            "exhaustive enumeration of well-formed item sequences (depth-bounded) and full length / "
            "byte-value sweeps on the real reader over file, buffered and socket streams",
            "all sequences of well-formed items up to the depth bound, every payload length 0..1023, "
            "every implemented type at every alphabet shape and every inert byte between two frames, over BytesIO, BufferedReader and socket-backed "
            "streams; yielded frames compared with the generator's own list",
            "item representatives; depth bound"),
    "C03": ("exploration", "E1+refmodel",
            "bounded exhaustive enumeration (all identities x shape product x deviation-bounded "
            "valuations) against an independent reference decoder",
            "every defined identity x full product of the count/flag/mask menus x valuations within "
            "deviation bound 1 (2 in thorough) + every single-bit flip of every plain field, decoded "
            "by the real RTCMMessage and compared with mc/refmodel.py",
            "relative to the tree's data-field table (pinned by C10); extreme-value alphabet"),
    "C04": ("exploration", "E1",
            "exhaustive enumeration of headers x lengths x fills, structure-aware mutations and "
            "hostile streams x error modes; oracle = exception class and bounded call count",
            "all 4096 numbers x short lengths x fills, all truncations / spliced bodies of corpus "
            "payloads and every hostile stream of the C01 alphabet under all modes, also over a real "
            "socket subclass (plain and chunked, peer closing at every byte, receive faults, hostile chunk-size "
            "lines, truncated compressed bodies), a bytearray-returning and a non-seekable buffered stream, and 560 hostile "
            "text lines each iterated in a forked child killed from outside on time-out; only library "
            "exceptions may escape, ignore/log modes never raise, read-call count bounded",
            "termination is decided by a deterministic bound on stream calls per item"),
    "C05": ("fault_enumeration", "E1",
            "exhaustive enumeration of damage patterns (every single bit, pairs, bursts) x damaged "
            "subsets x error modes on the real reader",
            "streams of k distinct frames x every subset damaged x every single-bit position behind "
            "the header (+ pair / triple / burst / chosen-syndrome families) x {ignore, log, raise} x {handler kinds, "
            "logger} x host logging configurations x five kinds of stream object",
            "multi-bit patterns are families; frame count <= 4"),
    "C06": ("exploration", "refmodel",
            "exhaustive enumeration of every whole-byte truncation of every reference payload",
            "every identity x shape x {zeros, ones, fingerprint, NUL text} x every cut length from full-1 down "
            "to the identity header, handed over as bytes / bytearray / memoryview slice of a larger buffer; the real "
            "constructor must fail",
            "complete payloads come from the reference encoder"),
    "C07": ("exploration", "refmodel",
            "exhaustive enumeration over payload length 2..1023 and the corpus; independent framing",
            "every length 2..1023 x 4 fills x 2 unknown numbers, all corpus payloads, known types "
            "steered to the 8/9/10-bit length boundaries and all MSM types with format-special spare "
            "bytes, under label options 1/2/0 and every entry point: serialize == independently built frame, "
            "parse inverse, repr evaluable; reader-level round trip under one read fault; all sequences of "
            "<= 2 (3) of 13 read-only operations on one message object",
            "payload contents per length are three fills"),
    "C08": ("exploration", "E1",
            "exhaustive enumeration of messages / error patterns within stated families against two "
            "independent CRC implementations",
            "calc_crc24q == long-division and table references on all messages of <= 2 bytes, on ALL "
            "2^24 register states x input byte (every 4-byte message with a given last byte), every "
            "(position, byte) on zero/one backgrounds, every single-bit message per length; parse "
            "rejects every 1-bit error at every position for every frame length, all 2-bit errors on "
            "short frames, 3-bit, odd and burst families, replaced trailers, frames embedding a frame, "
            "special-trailer frames, also after the same damaged bytes were parsed with validation off",
            "the universal detection guarantee is a theorem about the generator; enumerated families "
            "decide the implementation's agreement with it on those inputs"),
    "C09": ("exploration", "refmodel",
            "exhaustive enumeration of mask shapes (all popcount<=2 masks, all cell masks up to 6 "
            "cells) x 49 MSM types x label option against pinned RINEX/PRN tables",
            "NSat/NSig/NCell and every PRN/CELLPRN/CELLSIG label compared with a reference mask "
            "decoder over pinned RTCM 10403.3 tables for all 49 MSM identities; a subset re-judged in child "
            "interpreters under -O, -OO, -W error, -X dev",
            "masks of popcount >= 3 are represented, not enumerated"),
    "C10": ("exploration", "refmodel+pinned",
            "exhaustive enumeration over the definition table x count product; black-box bit-ownership "
            "recovery by flipping every payload bit; sibling decodings of identical bits",
            "static walk of every definition; every identity x count product decoded from payloads laid "
            "out with PINNED tables (exact length, names); bit->attribute map and decoding class "
            "and scale recovered by exhaustive bit flips / extremes; composite/parallel families on identical "
            "block bits; IGS SSR v1 closed list",
            "pinned snapshot provenance (X cross-checked by hand-written formulas, S regression pin)"),
    "C11": ("model_checking", "E2",
            "explicit-state BFS over the real SocketWrapper (all segmentations x read sizes x fault "
            "placements to a fixed point) + E1 over the reader on a socket",
            "state graph of the real SocketWrapper closed under all recv() answers (any split, close, "
            "timeout, OS error) and all client reads; invariants checked in every state; long-haul "
            "histories (70 000+ bytes through one wrapper, receive buffers up to 1 MiB); genuine OS sockets "
            "(socketpair, non-blocking / time-out) with a faulting receive after every segment for all compositions "
            "of a 10-byte stream; reader over socket subclasses (incl. one with its own read()) compared with "
            "BytesIO for all segmentations of short streams",
            "source length and fault count bounded; canonical state = all instance attributes + cursor"),
    "C12": ("model_checking", "E2",
            "explicit-state exploration of the real dechunking wrapper over all compositions of the "
            "encoded stream",
            "all chunk-size lists (<= 3 chunks) x hex spellings x terminator, every composition of the "
            "encoded stream into recv() results for short bodies and the BFS fixed point for longer / "
            "compressed bodies (single and OR'd compression layers), size fields of up to 17 digits, 300 / 700 chunks "
            "in one receive; delivered bytes == reference RFC 9112 decoder",
            "well-formed chunked bodies only"),
    "C13": ("model_checking", "E2+E3",
            "explicit-state search over parse histories with full table snapshots + controlled "
            "two-thread scheduler enumerating all schedules up to a pre-emption bound",
            "all ordered pairs of corpus parses and depth-3 histories over a conflict set (tables "
            "unchanged, result == fresh-process reference); two real threads under a baton scheduler, "
            "every schedule with <= b pre-emptions at line granularity (bytecode granularity for some "
            "pairs), warm and - each schedule in a freshly forked child - cold, followed by sequential parses; "
            "operations include readers over mixed streams, after an error and after filler frames; capacity "
            "sweeps of ~900 distinct payloads in one process",
            "two threads; pre-emption bound; line-level points coarser than bytecode"),
    "C14": ("exploration", "corpus",
            "exhaustive enumeration of (message, attribute name, value kind) and ordered pairs",
            "every corpus message x every instance attribute name (public, private), properties and "
            "fresh names x value kinds, on messages obtained directly, from parser / file / socket readers "
            "and through copy / deepcopy / pickle; values incl. retyped copies and in-place augmented "
            "assignment, values that cannot be inspected, hosts with warnings turned into errors and child "
            "interpreters under -O / -OO / -W error; setattr must raise RTCMMessageError, snapshot unchanged",
            "assignment = builtin setattr"),
    "C15": ("exploration", "E1",
            "bounded exhaustive enumeration of the 12-bit x 8-bit header space on the real code",
            "all 4096 message numbers and all 256 sub-types x pad/version bits x tails",
            "tails are representatives"),
    "C16": ("exploration", "refmodel",
            "exhaustive enumeration of label options x MSM mask shapes x non-MSM corpus",
            "labelmsm in {0,1,2,True} x MSM shapes x all 49 types and every non-MSM corpus item, "
            "directly, through a reader and through copy / pickle; only CELLSIG may differ; labels "
            "functional in signal ID",
            "mask shapes as C09"),
    "C17": ("model_checking", "E1",
            "exhaustive product of reader configurations x enumerated streams, differential oracle",
            "validate x parsed x labelmsm x quitonerror over all depth-bounded streams of good frames, "
            "CRC-damaged frames (every trailer bit), NMEA, UBX, over a recording double, BytesIO and a "
            "RawIOBase stream, alone and interleaved; cursor positions, attributes, string form and "
            "serialised bytes identical",
            "stream depth bound"),
    "C18": ("exploration", "refmodel",
            "exhaustive enumeration of MSM shapes / 4076_201 (layers, degree, order) / other identities",
            "parse_msm and parse_4076_201 compared with indexed attributes for all MSM types x shapes "
            "(incl. 128 cells) under label options 1,2,0,2,1 in turn and all degree/order pairs, results "
            "modified by the caller between calls; every other identity returns None",
            "shapes as C09 plus 3-digit index shapes"),
    "C19": ("exploration", "refmodel",
            "exhaustive enumeration of the generated attribute-name set",
            "every distinct attribute name the real parser produces over all identities x shapes "
            "(1-3 digit indices, two nesting levels): datadesc / att2idx / att2name",
            "key and indices of a name come from the reference layout"),
}

ENGINES = [
    {"name": "E1", "path": "/verif/mc/explore.py", "kind_free_text":
        "stateless deviation-bounded choice-tree explorer over the real code",
     "serves_properties": ["C01", "C02", "C04", "C05", "C08", "C15", "C17"]},
    {"name": "E2", "path": "/verif/mc/bfs.py", "kind_free_text":
        "explicit-state BFS over histories of real objects with generic vars() canonicalisation",
     "serves_properties": ["C11", "C12", "C13"]},
    {"name": "E3", "path": "/verif/mc/sched.py", "kind_free_text":
        "controlled two-thread scheduler (baton, sys.settrace / sys.monitoring) with pre-emption bound",
     "serves_properties": ["C13"]},
    {"name": "refmodel", "path": "/verif/mc/refmodel.py", "kind_free_text":
        "independent reference encoder/decoder over the definition tables + pinned standards data",
     "serves_properties": ["C03", "C06", "C07", "C09", "C10", "C16", "C18", "C19"]},
]


def main():
    props = [json.loads(l) for l in open(os.path.join(VERIF, "properties.jsonl"), encoding="utf-8")]
    built = {p["id"] for p in props
             if os.path.exists(os.path.join(VERIF, "checks", p["id"].lower() + ".py"))}
    checks = []
    for p in props:
        pid = p["id"]
        if pid not in built:
            continue
        level, engine, tech, text, note = CHECKS[pid]
        checks.append({
            "property_id": pid,
            "quick_cmd": f"/venv/bin/python /verif/run.py {pid} --tier quick",
            "thorough_cmd": f"/venv/bin/python /verif/run.py {pid} --tier thorough",
            "evidence_file": f"/verif/evidence/{pid}.json",
            "replay_cmd_template": "/venv/bin/python /verif/run.py --replay {path}",
            "engine": engine,
            "level_claimed": {"category": level, "text": text, "design_ref": f"DESIGN.md section 4, {pid}"},
            "level_note": note,
            "technique": tech,
        })
    man = {
        "version": 1,
        "setup_cmd": "/venv/bin/python /verif/tools/selfcheck.py",
        "hooks": {
            "guard": "PYRTCM_VERIF",
            "enable": "no source hooks are needed: checks import /repo/src directly (working tree, "
                      "no build step) and inject faults / segmentations / schedules from outside",
            "baseline_off_cmd": "cd /repo && /venv/bin/python -m pytest -ra -q -p no:cacheprovider --timeout=900",
            "source_commits": [],
            "add_only": True,
        },
        "engines": ENGINES,
        "checks": checks,
        "not_applicable": [
            {"property_id": p["id"],
             "reason": "check not built yet (work in progress, see DESIGN.md Appendix B); model "
                       "checking does apply to it"}
            for p in props if p["id"] not in built
        ],
        "notes": "All checks are bounded-exhaustive explorations of the real pyrtcm code "
                 "(/repo/src, current working tree). See DESIGN.md.",
    }
    with open(os.path.join(VERIF, "MANIFEST.json"), "w", encoding="utf-8") as fh:
        json.dump(man, fh, indent=1)
    print(f"{len(checks)} checks, {len(man['not_applicable'])} not yet built")


if __name__ == "__main__":
    main()
