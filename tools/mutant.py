#!/venv/bin/python
"""
Detection self-test: apply a patch to a scratch copy of /repo (outside /repo
and /verif), run the repository's own test-suite there, then run the named
checks against the scratch tree.  The scratch copy is removed afterwards.

    tools/mutant.py seeded/x/patch.diff --checks C03,C10 [--tier quick] [--keep]

Prints one line per check:  <id> exit=<code>  and a summary
    MUTANT <patch> suite=<pass|FAIL> caught_by=[...]
"""

import argparse
import os
import shutil
import subprocess
import sys
import tempfile

VERIF = os.path.dirname(os.path.dirname(os.path.abspath(__file__)))


def main():
    ap = argparse.ArgumentParser()
    ap.add_argument("patch")
    ap.add_argument("--checks", default="")
    ap.add_argument("--tier", default="quick")
    ap.add_argument("--no-suite", action="store_true")
    ap.add_argument("--keep", action="store_true")
    ap.add_argument("--verbose", "-v", action="store_true")
    args = ap.parse_args()
    patch = os.path.abspath(args.patch)
    scratch = tempfile.mkdtemp(prefix="pyrtcm-mut-", dir="/var/tmp")
    try:
        subprocess.run(
            ["rsync", "-a", "--exclude", ".git", "--exclude", "htmlcov", "--exclude", "docs",
             "/repo/", scratch + "/"], check=True)
        r = subprocess.run(["patch", "-p1", "-s", "-d", scratch, "-i", patch],
                           capture_output=True, text=True)
        if r.returncode:
            print(f"MUTANT {args.patch} PATCH-FAILED {r.stdout} {r.stderr}")
            return 3
        env = dict(os.environ)
        env.update({"PYTHONPATH": scratch + "/src", "PYTHONDONTWRITEBYTECODE": "1"})
        suite = "skipped"
        if not args.no_suite:
            r = subprocess.run(
                ["/venv/bin/python", "-m", "pytest", "-q", "-p", "no:cacheprovider", "-x",
                 "--no-cov", "tests"],
                cwd=scratch, env=env, capture_output=True, text=True)
            suite = "pass" if r.returncode == 0 else "FAIL"
            if suite == "FAIL" and args.verbose:
                print(r.stdout[-1500:])
        caught = []
        evdir = os.path.join(scratch, "_evidence")
        env2 = dict(os.environ)
        env2.update({"PYRTCM_SRC": scratch + "/src", "PYRTCM_REPO": scratch,
                     "VERIF_EVIDENCE_DIR": evdir, "VERIF_OUT_DIR": os.path.join(scratch, "_out")})
        for pid in [c for c in args.checks.split(",") if c]:
            r = subprocess.run(["/venv/bin/python", os.path.join(VERIF, "run.py"), pid, "--tier",
                                args.tier], env=env2, capture_output=True, text=True)
            sigs = [l.strip() for l in r.stdout.splitlines() if l.strip().startswith("signature:")]
            print(f"  {pid} exit={r.returncode} {sigs[:3]}")
            if args.verbose or r.returncode not in (0, 1):
                print(r.stdout[-2500:], r.stderr[-2500:])
            if r.returncode == 1:
                caught.append(pid)
        print(f"MUTANT {os.path.relpath(patch, VERIF)} suite={suite} caught_by={caught}")
        return 0
    finally:
        if not args.keep:
            shutil.rmtree(scratch, ignore_errors=True)
        else:
            print("kept", scratch)


if __name__ == "__main__":
    sys.exit(main())
