#!/venv/bin/python
"""
Snapshot the definition tables of the tree at the pinned commit (plus the
reviewed 'fix:' commits) into mc/pinned_tables.json.  Run by hand, never by a
check; the result is committed and reviewed (provenance S in DESIGN.md 2.2,
cross-checked against the hand-written X formulas in mc/pinned.py by C10).

Structure is recorded as field key, decoding class, width; the resolution of
every data field is recorded separately under "res" (integers as such, floats
in exact hexadecimal notation) and is used by C10's scale comparison only: it
is a regression pin (provenance S), not an independent reading of the standard.
"""
import json
import sys

sys.path.insert(0, "/verif")
from mc import core  # noqa: E402

core.bootstrap()
import pyrtcm  # noqa: E402

CLASS = {"BIT": "U", "BITX": "U", "UINT": "U", "INT": "I", "SNT": "S", "CHA": "C", "STR": "T",
         "PRN": "D", "CPR": "D", "CSG": "D"}


def enc(body):
    out = []
    for key, adef in body.items():
        if isinstance(adef, tuple):
            spec, sub = adef
            if isinstance(spec, tuple):
                out.append([key, {"cond": [spec[0], spec[1]], "body": enc(sub)}])
            else:
                out.append([key, {"rep": spec, "body": enc(sub)}])
        else:
            out.append([key, "F"])
    return out


fields = {k: [CLASS[v[0]], v[1]] for k, v in pyrtcm.RTCM_DATA_FIELDS.items()}
defs = {}
for tbl in (pyrtcm.RTCM_PAYLOADS_GET, pyrtcm.RTCM_PAYLOADS_GET_MSM, pyrtcm.RTCM_PAYLOADS_GET_IGS):
    for ident, body in tbl.items():
        defs[ident] = enc(body)
res = {k: (v[2] if isinstance(v[2], int) else float(v[2]).hex()) for k, v in pyrtcm.RTCM_DATA_FIELDS.items()}
json.dump({"fields": fields, "defs": defs, "res": res}, open("/verif/mc/pinned_tables.json", "w"),
          indent=0, sort_keys=True)
print(len(fields), "fields", len(defs), "definitions")
