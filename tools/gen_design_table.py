#!/venv/bin/python
"""Rewrite the seeded-changes table of DESIGN.md (section 9.6) from seeded/*/meta.json."""
import glob
import json
import os
import re

VERIF = os.path.dirname(os.path.dirname(os.path.abspath(__file__)))
matrix = {}
mx = os.path.join(VERIF, "seeded", "MATRIX-quick.json")
if os.path.exists(mx):
    matrix = json.load(open(mx, encoding="utf-8"))
rows = []
for mp in sorted(glob.glob(os.path.join(VERIF, "seeded", "*", "meta.json"))):
    m = json.load(open(mp, encoding="utf-8"))
    name = m["name"]
    notes = m.get("needs", "")
    first = ""
    for line in notes.splitlines():
        line = line.strip().lstrip("#").strip()
        if line and not line.lower().startswith(("notes", "change")):
            first = line
            break
    if not first:
        first = notes.strip().splitlines()[0].lstrip("# ").strip() if notes.strip() else ""
    first = re.sub(r"\s+", " ", first)[:150].replace("|", "/")
    caught = m.get("caught_by", [])
    checks = m["checks"]
    if name in matrix and "caught_by" in matrix[name]:
        caught = matrix[name]["caught_by"]
        checks = matrix[name]["checks"]
    sigs = []
    for pid in caught:
        sigs += checks[pid].get("signatures", [])[:2]
    rows.append(f"| `{name}` | {m['property']} | {first} | {', '.join(caught) or '**none**'} | "
                f"{'; '.join('`' + s + '`' for s in sigs[:3])} |")
table = ("| change | property | what (from the author's notes) | caught by (quick tier) | signatures |\n"
         "|---|---|---|---|---|\n" + "\n".join(rows))
p = os.path.join(VERIF, "DESIGN.md")
s = open(p, encoding="utf-8").read()
begin, end = "<!-- SEEDED-TABLE-BEGIN -->", "<!-- SEEDED-TABLE-END -->"
if begin not in s:
    s = s.replace("SEEDED_TABLE_PLACEHOLDER", begin + "\n" + end)
s = s[: s.index(begin) + len(begin)] + "\n" + table + "\n" + s[s.index(end):]
open(p, "w", encoding="utf-8").write(s)
print(len(rows), "rows")
