#!/venv/bin/python
"""setup_cmd: nothing is built; verify the environment the checks rely on."""
import os
import sys

sys.path.insert(0, os.path.dirname(os.path.dirname(os.path.abspath(__file__))))
from mc import core, pinned  # noqa: E402

core.bootstrap()
fields, defs = pinned.load_tables()
assert len(defs) >= 150 and len(fields) >= 500
assert pinned.crc24q_table(b"123456789") == pinned.crc24q_longdiv(b"123456789") == 0xCDE703
os.makedirs(core.EVIDENCE_DIR, exist_ok=True)
print("selfcheck ok: pyrtcm from", core.SRC)
