#!/venv/bin/python
"""
Confirm and file a seeded change produced by an independent sub-agent.

    tools/seed_eval.py <dir with patch.diff, demo.py, notes.md> <property id> <name> [--checks C01,C04]

Steps (all in a scratch copy under /var/tmp, removed afterwards):
  1. demo.py on the unchanged tree must exit 0;
  2. the patch must apply; the repository's own test-suite must pass with it;
  3. demo.py on the changed tree must exit non-zero;
  4. the property's quick check (plus any extra checks) is run against the changed tree.
On success of 1-3 the change is filed as /verif/seeded/<name>/ (patch.diff, demo.py, notes.md,
meta.json with what was run and which checks caught it).
"""

import argparse
import json
import os
import shutil
import subprocess
import sys
import tempfile
import time

VERIF = os.path.dirname(os.path.dirname(os.path.abspath(__file__)))


def sh(cmd, **kw):
    return subprocess.run(cmd, capture_output=True, text=True, **kw)


def main():
    ap = argparse.ArgumentParser()
    ap.add_argument("src")
    ap.add_argument("prop")
    ap.add_argument("name")
    ap.add_argument("--checks", default="")
    ap.add_argument("--tier", default="quick")
    ap.add_argument("--no-file", action="store_true")
    args = ap.parse_args()
    src = os.path.abspath(args.src)
    patch = os.path.join(src, "patch.diff")
    demo = os.path.join(src, "demo.py")
    scratch = tempfile.mkdtemp(prefix="pyrtcm-seed-", dir="/var/tmp")
    meta = {"property": args.prop, "name": args.name, "ran": [], "evaluated": time.strftime("%Y-%m-%d")}
    try:
        sh(["rsync", "-a", "--exclude", ".git", "--exclude", "htmlcov", "--exclude", "docs",
            "/repo/", scratch + "/"], check=True)
        env = dict(os.environ, PYTHONPATH=scratch + "/src", PYTHONDONTWRITEBYTECODE="1")
        r = sh(["/venv/bin/python", demo], env=env, cwd=scratch, timeout=300)
        meta["demo_unchanged_exit"] = r.returncode
        meta["ran"].append("demo.py on the unchanged tree")
        r = sh(["patch", "-p1", "-s", "-d", scratch, "-i", patch])
        if r.returncode:
            print("PATCH FAILED", r.stdout, r.stderr)
            return 3
        r = sh(["/venv/bin/python", "-m", "pytest", "-q", "-p", "no:cacheprovider", "--no-cov",
                "tests"], env=env, cwd=scratch, timeout=900)
        meta["suite_with_change"] = "pass" if r.returncode == 0 else "FAIL"
        meta["suite_tail"] = r.stdout.strip().splitlines()[-1:] if r.stdout else []
        meta["ran"].append("repository test-suite (40 tests) on the changed tree")
        try:
            r = sh(["/venv/bin/python", demo], env=env, cwd=scratch, timeout=300)
            meta["demo_changed_exit"] = r.returncode
            meta["demo_output"] = (r.stdout + r.stderr).strip()[-600:]
        except subprocess.TimeoutExpired:
            meta["demo_changed_exit"] = "timeout"
        meta["ran"].append("demo.py on the changed tree")
        checks = [args.prop] + [c for c in args.checks.split(",") if c and c != args.prop]
        env2 = dict(os.environ, PYRTCM_SRC=scratch + "/src", PYRTCM_REPO=scratch,
                    VERIF_EVIDENCE_DIR=os.path.join(scratch, "_ev"),
                    VERIF_OUT_DIR=os.path.join(scratch, "_out"))
        meta["checks"] = {}
        for pid in checks:
            t0 = time.time()
            try:
                r = sh(["/venv/bin/python", os.path.join(VERIF, "run.py"), pid, "--tier", args.tier],
                       env=env2, timeout=3600)
                sigs = sorted({l.strip()[11:] for l in r.stdout.splitlines()
                               if l.strip().startswith("signature:")})
                meta["checks"][pid] = {"exit": r.returncode, "signatures": sigs[:6],
                                       "wall_s": round(time.time() - t0, 1), "tier": args.tier}
                if r.returncode not in (0, 1):
                    meta["checks"][pid]["stderr"] = r.stderr[-500:]
            except subprocess.TimeoutExpired:
                meta["checks"][pid] = {"exit": "timeout"}
            meta["ran"].append(f"run.py {pid} --tier {args.tier} against the changed tree")
        meta["caught_by"] = [p for p, v in meta["checks"].items() if v.get("exit") == 1]
        ok = (meta["demo_unchanged_exit"] == 0 and meta["suite_with_change"] == "pass"
              and meta["demo_changed_exit"] not in (0,))
        meta["confirmed"] = ok
        print(json.dumps({k: meta[k] for k in ("name", "demo_unchanged_exit", "suite_with_change",
                                                "demo_changed_exit", "caught_by", "confirmed")}))
        for pid, v in meta["checks"].items():
            print("  ", pid, v)
        if ok and not args.no_file:
            dst = os.path.join(VERIF, "seeded", args.name)
            os.makedirs(dst, exist_ok=True)
            for f in ("patch.diff", "demo.py", "notes.md"):
                if os.path.exists(os.path.join(src, f)):
                    shutil.copy(os.path.join(src, f), os.path.join(dst, f))
            notes = os.path.join(src, "notes.md")
            meta["needs"] = open(notes, encoding="utf-8").read()[:1500] if os.path.exists(notes) else ""
            with open(os.path.join(dst, "meta.json"), "w", encoding="utf-8") as fh:
                json.dump(meta, fh, indent=1)
        return 0
    finally:
        shutil.rmtree(scratch, ignore_errors=True)


if __name__ == "__main__":
    sys.exit(main())
