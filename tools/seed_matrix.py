#!/venv/bin/python
"""
Re-run the detection matrix: every change under /verif/seeded and every patch
under /verif/mutants is applied to a scratch copy of /repo (under /var/tmp,
removed afterwards) and the listed checks are run against it.

    tools/seed_matrix.py [--tier quick] [--only C05-A,...] [--jobs 4] [--all-checks]

Writes /verif/seeded/MATRIX.json and prints one line per change.
Each change's own property check is always run; meta.json "extra_checks"
(or --all-checks) adds more.
"""

import argparse
import concurrent.futures as cf
import glob
import json
import os
import shutil
import subprocess
import sys
import tempfile
import time

VERIF = os.path.dirname(os.path.dirname(os.path.abspath(__file__)))
ALL = [f"C{i:02d}" for i in range(1, 20)]


def sh(cmd, **kw):
    return subprocess.run(cmd, capture_output=True, text=True, **kw)


def one(job):
    name, patch, checks, tier, nproc = job
    scratch = tempfile.mkdtemp(prefix="pyrtcm-mx-", dir="/var/tmp")
    res = {"name": name, "checks": {}}
    try:
        sh(["rsync", "-a", "--exclude", ".git", "--exclude", "htmlcov", "--exclude", "docs",
            "/repo/", scratch + "/"], check=True)
        r = sh(["patch", "-p1", "-s", "-d", scratch, "-i", patch])
        if r.returncode:
            res["error"] = "patch failed"
            return res
        env = dict(os.environ, PYTHONPATH=scratch + "/src", PYTHONDONTWRITEBYTECODE="1")
        r = sh(["/venv/bin/python", "-m", "pytest", "-q", "-p", "no:cacheprovider", "--no-cov", "-x",
                "tests"], env=env, cwd=scratch, timeout=900)
        res["suite"] = "pass" if r.returncode == 0 else "FAIL"
        env2 = dict(os.environ, PYRTCM_SRC=scratch + "/src", PYRTCM_REPO=scratch,
                    VERIF_EVIDENCE_DIR=os.path.join(scratch, "_ev"),
                    VERIF_OUT_DIR=os.path.join(scratch, "_out"), VERIF_NPROC=str(nproc))
        for pid in checks:
            t0 = time.time()
            try:
                r = sh(["/venv/bin/python", os.path.join(VERIF, "run.py"), pid, "--tier", tier],
                       env=env2, timeout=7200)
                sigs = sorted({l.strip()[11:] for l in r.stdout.splitlines()
                               if l.strip().startswith("signature:")})
                res["checks"][pid] = {"exit": r.returncode, "signatures": sigs[:5],
                                      "wall_s": round(time.time() - t0, 1)}
            except subprocess.TimeoutExpired:
                res["checks"][pid] = {"exit": "timeout"}
        res["caught_by"] = [p for p, v in res["checks"].items() if v["exit"] == 1]
        res["broken"] = [p for p, v in res["checks"].items() if v["exit"] not in (0, 1)]
        return res
    finally:
        shutil.rmtree(scratch, ignore_errors=True)


def main():
    ap = argparse.ArgumentParser()
    ap.add_argument("--tier", default="quick")
    ap.add_argument("--only", default="")
    ap.add_argument("--jobs", type=int, default=4)
    ap.add_argument("--all-checks", action="store_true")
    ap.add_argument("--mutants", action="store_true", help="also run /verif/mutants/*.patch")
    args = ap.parse_args()
    only = {x for x in args.only.split(",") if x}
    jobs = []
    nproc = max(2, 16 // args.jobs)
    for d in sorted(glob.glob(os.path.join(VERIF, "seeded", "*", "patch.diff"))):
        name = os.path.basename(os.path.dirname(d))
        if only and name not in only:
            continue
        meta = json.load(open(os.path.join(os.path.dirname(d), "meta.json"), encoding="utf-8"))
        checks = [meta["property"]] + [c for c in meta.get("extra_checks", []) if c != meta["property"]]
        if args.all_checks:
            checks = [meta["property"]] + [c for c in ALL if c != meta["property"]]
        jobs.append((name, d, checks, args.tier, nproc))
    if args.mutants:
        for d in sorted(glob.glob(os.path.join(VERIF, "mutants", "*.patch"))):
            name = "mutant:" + os.path.basename(d)[:-6]
            if only and name not in only:
                continue
            pid = os.path.basename(d)[:3]
            jobs.append((name, d, [pid] if not args.all_checks else ALL, args.tier, nproc))
    out = {}
    with cf.ThreadPoolExecutor(args.jobs) as ex:
        for res in ex.map(one, jobs):
            out[res["name"]] = res
            print(f"{res['name']:34s} suite={res.get('suite')} caught_by={res.get('caught_by')} "
                  f"broken={res.get('broken')} {res.get('error', '')}", flush=True)
    path = os.path.join(VERIF, "seeded", f"MATRIX-{args.tier}{'-all' if args.all_checks else ''}.json")
    if only and os.path.exists(path):  # partial re-run: merge into the existing matrix
        full = json.load(open(path, encoding="utf-8"))
        full.update(out)
    else:
        full = out
    with open(path, "w", encoding="utf-8") as fh:
        json.dump(full, fh, indent=1, sort_keys=True)
    missed = [n for n, r in out.items() if not r.get("caught_by")]
    print(f"{len(out)} changes, {len(missed)} not caught: {missed}")
    return 0


if __name__ == "__main__":
    sys.exit(main())
