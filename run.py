#!/venv/bin/python
"""
Entry point of every check.

    /venv/bin/python /verif/run.py C07 --tier quick
    /venv/bin/python /verif/run.py --replay /verif/out/replays/C07-xxxx.json

exit 0: property held on everything explored (KNOWN-FINDING lines possible)
exit 1: at least one "VIOLATION property=<id> replay=<path>" line
exit 2: the harness itself is broken (never a verdict about pyrtcm)
"""

import argparse
import importlib
import json
import os
import sys
import time

HERE = os.path.dirname(os.path.abspath(__file__))


def _reexec():
    """Fixed hash seed / no bytecode files so runs are reproducible and leave /repo clean."""
    want = {"PYTHONHASHSEED": "0", "PYTHONDONTWRITEBYTECODE": "1"}
    if any(os.environ.get(k) != v for k, v in want.items()):
        env = dict(os.environ)
        env.update(want)
        os.execve(sys.executable, [sys.executable] + sys.argv, env)


def main():
    _reexec()
    sys.path.insert(0, HERE)
    from mc import core  # pylint: disable=import-outside-toplevel

    ap = argparse.ArgumentParser()
    ap.add_argument("prop", nargs="?")
    ap.add_argument("--tier", default=os.environ.get("VERIF_TIER", "quick"),
                    choices=["quick", "thorough"])
    ap.add_argument("--replay")
    ap.add_argument("--judge-file")
    args = ap.parse_args()
    seed = int(os.environ.get("VERIF_SEED", "0") or 0)

    try:
        core.bootstrap()
        if args.judge_file:
            # child of core.interpreter_modes(): judge the given cases under THIS interpreter's flags
            import pickle  # pylint: disable=import-outside-toplevel

            with open(args.judge_file, "rb") as fh:
                job = pickle.load(fh)
            mod = importlib.import_module(f"checks.{job['pid'].lower()}")
            viols = []
            for idx, case in enumerate(job["cases"]):
                out = mod.judge(case)
                if out.violations:
                    viols.append([idx, [[s, m[:600]] for s, m in out.violations[:3]]])
            print("MODE-RESULT " + json.dumps({"judged": len(job["cases"]), "violations": viols[:50]}))
            return 0
        if args.replay:
            with open(args.replay, encoding="utf-8") as fh:
                body = json.load(fh)
            flags = body.get("case", {}).get("interp_flags") if isinstance(body.get("case"), dict) else None
            if flags and os.environ.get("VERIF_INTERP") != "1":
                os.execve(sys.executable, [sys.executable, *flags] + sys.argv,
                          dict(os.environ, VERIF_INTERP="1"))
            pid = body["property"]
            mod = importlib.import_module(f"checks.{pid.lower()}")
            out = mod.judge(core.unjson(body["case"]))
            if out.violations:
                for sig, msg in out.violations:
                    print(f"VIOLATION property={pid} replay={args.replay}")
                    print(f"  signature: {sig}\n  {msg[:1000]}")
                return 1
            print(f"replay {args.replay}: no violation on this tree")
            return 0
        pid = args.prop.upper()
        mod = importlib.import_module(f"checks.{pid.lower()}")
        t0 = time.time()
        return mod.run(args.tier, seed, t0)
    except core.Broken as err:
        print(f"BROKEN: {err}", file=sys.stderr)
        return 2


if __name__ == "__main__":
    sys.exit(main())
