"""
Plain pytest replay of every recorded violation case (no explorer involved):

    /venv/bin/python -m pytest -q -p no:cacheprovider /verif/replays

Each JSON file holds one minimal case of a defect that was repaired by a
'fix:' commit in /repo; the judge of the owning check must find no violation.
"""
import glob
import importlib
import json
import os
import sys

import pytest

HERE = os.path.dirname(os.path.abspath(__file__))
sys.path.insert(0, os.path.dirname(HERE))
from mc import core  # noqa: E402

core.bootstrap()


@pytest.mark.parametrize("path", sorted(glob.glob(os.path.join(HERE, "*.json"))))
def test_replay(path):
    with open(path, encoding="utf-8") as fh:
        body = json.load(fh)
    mod = importlib.import_module("checks." + body["property"].lower())
    out = mod.judge(core.unjson(body["case"]))
    assert not out.violations, out.violations
