"""
C07 -- serialize and parse are mutual inverses; framing is canonical.

Space: every payload length 2..1023 x fills {00, FF, fingerprint} under unknown
numbers {0, 4095}; every corpus payload; known types steered to the length
boundaries {255,256,257,511,512,767,768,1022,1023} through their counters.
"""

from mc import core, corpus, pinned
from mc import refmodel as R

LEVEL = "exploration"
RULE = (
    "case = payload (unknown-type payloads of every length 2..1023 x 4 fills x 2 numbers; every MSM "
    "type x mask shapes x spare bytes special to formatting layers, under label options 1, 2, 0; every "
    "corpus payload; text/descriptor types steered to the 8/9/10-bit length boundaries); each is "
    "constructed, serialised, compared with an independently built frame, re-parsed, and its "
    "repr evaluated; non-trivial = message constructed; distinct = distinct payloads"
)


def judge(case):
    from pyrtcm import RTCMMessage, RTCMReader  # pylint: disable=import-outside-toplevel

    out = core.Outcome()
    payload = case["payload"]
    try:
        msg = RTCMMessage(payload=payload)
    except Exception as err:  # pylint: disable=broad-except
        out.nontrivial = False
        out.obs = ("noparse", type(err).__name__)
        if case.get("must_parse"):
            out.bad("corpus-payload-fails", f"{case.get('name')}: {type(err).__name__}: {err}")
        return out
    name = case.get("name", msg.identity)
    want = pinned.frame(payload)
    try:
        ser = msg.serialize()
    except Exception as err:  # pylint: disable=broad-except
        out.bad("serialize-raises", f"{name}: {type(err).__name__}: {err}")
        return out
    if ser != want:
        part = ("header" if ser[:1] != want[:1] else "length" if ser[:3] != want[:3] else
                "payload" if ser[3:-3] != want[3:-3] else "crc")
        out.bad(f"serialize-noncanonical:{part}",
                f"{name}: len {len(payload)}: serialize() = {ser[:6].hex()}..{ser[-3:].hex()} "
                f"({len(ser)} B), reference {want[:6].hex()}..{want[-3:].hex()} ({len(want)} B)")
    if len(ser) >= 3 and (ser[1] & 0xFC):
        out.bad("length-top-bits", f"{name}: length field top six bits not zero: {ser[:3].hex()}")
    try:
        back = RTCMReader.parse(want)
        if back.payload != payload or back.identity != msg.identity:
            out.bad("parse-not-inverse", f"{name}: parse(frame) payload/identity differ")
        elif R.public_attrs(back) != R.public_attrs(msg):
            out.bad("parse-not-inverse", f"{name}: parse(frame) attributes differ from direct construction")
        again = back.serialize()
        if again != want:
            out.bad("parse-serialize-not-identity", f"{name}: parse(f).serialize() != f")
        if ser != want:
            pass
        else:
            back2 = RTCMReader.parse(ser)
            if back2.payload != payload:
                out.bad("parse-not-inverse", f"{name}: parse(serialize()) payload differs")
    except Exception as err:  # pylint: disable=broad-except
        out.bad("valid-frame-rejected", f"{name}: parse(reference frame, {len(want)} B) raises "
                f"{type(err).__name__}: {err}")
    # a message obtained from a frame with a WRONG trailer (validation off) must still serialise
    # canonically: the checksum is computed, never carried over from the wire
    try:
        import io  # pylint: disable=import-outside-toplevel

        for trailer in (b"\x00\x00\x00", bytes(b ^ 0x5A for b in want[-3:])):
            if trailer == want[-3:]:
                continue
            bad = want[:-3] + trailer
            m0 = RTCMReader.parse(bad, validate=0)
            if m0.serialize() != want:
                out.bad("serialize-noncanonical:crc-carried-over",
                        f"{name}: parse(frame with trailer {trailer.hex()}, validate=0).serialize() "
                        f"ends in {m0.serialize()[-3:].hex()}, CRC-24Q is {want[-3:].hex()}")
                break
            rd = RTCMReader(io.BytesIO(bad), validate=0, quitonerror=0)
            _raw, m1 = rd.read()
            if m1 is None or m1.serialize() != want:
                out.bad("serialize-noncanonical:crc-carried-over",
                        f"{name}: reader(validate=0) message serialises non-canonically")
                break
    except Exception as err:  # pylint: disable=broad-except
        out.bad("validate-off-rejects", f"{name}: {type(err).__name__}: {err}")
    try:
        clone = eval(repr(msg), {"RTCMMessage": RTCMMessage, "__builtins__": {}})  # pylint: disable=eval-used
        if clone.payload != payload:
            out.bad("repr-not-evaluable", f"{name}: eval(repr(m)).payload differs")
    except Exception as err:  # pylint: disable=broad-except
        out.bad("repr-not-evaluable", f"{name}: eval(repr(m)) raises {type(err).__name__}: {err}")
    # the same for a message built with another label option, through each way of building it
    for lm in (2, 0):
        for how, make in (("constructor", lambda lm=lm: RTCMMessage(payload=payload, labelmsm=lm)),
                          ("parse", lambda lm=lm: RTCMReader.parse(want, labelmsm=lm))):
            try:
                m2 = make()
            except Exception:  # pylint: disable=broad-except
                continue  # reported by C16 / C04
            try:
                clone = eval(repr(m2), {"RTCMMessage": RTCMMessage, "__builtins__": {}})  # pylint: disable=eval-used
                if clone.payload != payload:
                    out.bad("repr-not-evaluable", f"{name}: eval(repr(m)).payload differs for a message "
                            f"built by {how} with labelmsm={lm}")
                if m2.serialize() != want:
                    out.bad("serialize-noncanonical:labelmsm", f"{name}: labelmsm={lm} changes serialize()")
            except Exception as err:  # pylint: disable=broad-except
                out.bad("repr-not-evaluable", f"{name}: repr / eval(repr(m)) raises {type(err).__name__}: "
                        f"{err} for a message built by {how} with labelmsm={lm}")
    out.obs = core.h64(payload)
    return out


def steered():
    """Known-type payloads at the length boundaries."""
    out = []
    targets = [255, 256, 257, 511, 512, 513, 767, 768, 1022, 1023]
    for t in targets:
        # 1029: 9 bytes + N text units (N <= 255)
        n = t - 9
        if 0 <= n <= 255:
            out.append(("1029", {"DF139": n, "DF138": min(n, 127)}, t))
        # 1033: 9 bytes + five counters
        rest = t - 9
        cnt = []
        for _ in range(5):
            c = min(255, rest)
            cnt.append(c)
            rest -= c
        if rest == 0:
            out.append(("1033", dict(zip(["DF029", "DF032", "DF227", "DF229", "DF231"], cnt)), t))
        # 1008: 6 bytes + N + M
        rest = t - 6
        a = min(255, rest)
        b = rest - a
        if 0 <= b <= 255:
            out.append(("1008", {"DF029": a, "DF032": b}, t))
    res = []
    for ident, shape, t in out:
        try:
            payload, _o, _n = R.build(ident, shape, "fp")
        except (R.BadDefinition, R.TooLong):
            continue
        res.append({"name": f"{ident}@{t}", "payload": payload, "must_parse": True,
                    "want_len": t})
    return res


def cases(tier):
    fp = bytes((53 * i + 19) & 0xFF for i in range(1023))
    for num in (0, 4095):
        hdr = (num << 4).to_bytes(2, "big")
        for ln in range(2, 1024):
            for fill in (b"\x00", b"\xff", None, b"%"):
                tail = fp[: ln - 2] if fill is None else fill * (ln - 2)
                yield {"name": f"unk{num}/{ln}", "payload": hdr + tail, "must_parse": True}
    for it in corpus.build(tier):
        yield {"name": it["name"], "payload": it["payload"], "must_parse": it["kind"] != "fail"}
    yield from steered()
    from mc import items  # pylint: disable=import-outside-toplevel

    for nm, it in items.frames().items():
        if len(it["payload"]) >= 2:
            yield {"name": f"item:{nm}", "payload": it["payload"], "must_parse": True}
    # every MSM type with spare bytes that are special to string formatting / escaping layers
    from mc import shapes as S  # pylint: disable=import-outside-toplevel

    for num in pinned.MSM_NUMBERS:
        for k, shape in enumerate(S.msm_shapes("quick")):
            for extra in (b"%%", b"%d%s", b"%\x80", b"100%", b"{0}{}", b"\\x00'\"", b"\r\n"):
                try:
                    payload, _o, _n = R.build(str(num), shape, "fp", extra=extra)
                except (R.BadDefinition, R.TooLong):
                    continue
                yield {"name": f"{num}#{k}+{extra!r}", "payload": payload, "must_parse": True}
    for ln in range(22, 120):
        yield {"name": f"1077%/{ln}", "payload": b"\x43\x50" + b"%" * (ln - 2), "must_parse": False}
    # payloads whose frame has CRC-24Q exactly 000000 (a legitimate value, not a sentinel)
    for ln in (5, 6, 8, 21, 64, 255, 256, 700, 1023):
        for num in (999, 1005, 2000):
            body = ((num << 4) & 0xFFFF).to_bytes(2, "big") + fp[: ln - 5]
            hdr = b"\xd3" + ln.to_bytes(2, "big")
            tail = pinned.crc24q_table(hdr + body).to_bytes(3, "big")
            payload = body + tail
            if pinned.crc24q_table(hdr + payload) != 0:
                raise core.Broken("zero-CRC payload construction failed")
            yield {"name": f"zerocrc{num}/{ln}", "payload": payload, "must_parse": num != 1005}


def _work(chunk):
    return core.run_cases(judge, chunk, sample_every=1499)


def run(tier, seed, t0):
    allc = list(cases(tier))
    core.check_deterministic(judge, allc[100])
    st = core.pmap(_work, core.chunks(allc, 400))
    st.extra["steered_lengths"] = sorted({len(c["payload"]) for c in steered()})
    st.extra["steered_lengths"] = len(st.extra["steered_lengths"])
    return core.finish(
        "C07", tier, seed, LEVEL, st, RULE, t0,
        assumptions=["reference framing/CRC from mc/pinned.py (table-driven CRC-24Q)",
                     "payload contents are three fills per length, not all byte strings"],
    )
