"""
C07 -- serialize and parse are mutual inverses; framing is canonical.

Space: every payload length 2..1023 x fills {00, FF, fingerprint} under unknown
numbers {0, 4095}; every corpus payload; known types steered to the length
boundaries {255,256,257,511,512,767,768,1022,1023} through their counters.
"""

from mc import core, corpus, pinned
from mc import refmodel as R

LEVEL = "exploration"
RULE = (
    "case = payload (unknown-type payloads of every length 2..1023 x 4 fills x 2 numbers; every MSM "
    "type x mask shapes x spare bytes special to formatting layers, under label options 1, 2, 0; every "
    "corpus payload; text/descriptor types steered to the 8/9/10-bit length boundaries); each is "
    "constructed, serialised, compared with an independently built frame, re-parsed, and its "
    "repr evaluated; non-trivial = message constructed; distinct = distinct payloads"
)


@core.guard
def judge(case):
    from pyrtcm import RTCMMessage, RTCMReader  # pylint: disable=import-outside-toplevel

    out = core.Outcome()
    if case.get("reader"):
        return _judge_reader_case(case)
    if case.get("objhist"):
        return _judge_seq(case["name"], case["payload"], case["seq"])
    payload = case["payload"]
    try:
        msg = RTCMMessage(payload=payload)
    except Exception as err:  # pylint: disable=broad-except
        out.nontrivial = False
        out.obs = ("noparse", type(err).__name__)
        if case.get("must_parse"):
            out.bad("corpus-payload-fails", f"{case.get('name')}: {type(err).__name__}: {err}")
        return out
    name = case.get("name", msg.identity)
    want = pinned.frame(payload)
    try:
        ser = msg.serialize()
    except Exception as err:  # pylint: disable=broad-except
        out.bad("serialize-raises", f"{name}: {type(err).__name__}: {err}")
        return out
    if ser != want:
        part = ("header" if ser[:1] != want[:1] else "length" if ser[:3] != want[:3] else
                "payload" if ser[3:-3] != want[3:-3] else "crc")
        out.bad(f"serialize-noncanonical:{part}",
                f"{name}: len {len(payload)}: serialize() = {ser[:6].hex()}..{ser[-3:].hex()} "
                f"({len(ser)} B), reference {want[:6].hex()}..{want[-3:].hex()} ({len(want)} B)")
    if len(ser) >= 3 and (ser[1] & 0xFC):
        out.bad("length-top-bits", f"{name}: length field top six bits not zero: {ser[:3].hex()}")
    try:
        back = RTCMReader.parse(want)
        if back.payload != payload or back.identity != msg.identity:
            out.bad("parse-not-inverse", f"{name}: parse(frame) payload/identity differ")
        elif R.public_attrs(back) != R.public_attrs(msg):
            out.bad("parse-not-inverse", f"{name}: parse(frame) attributes differ from direct construction")
        again = back.serialize()
        if again != want:
            out.bad("parse-serialize-not-identity", f"{name}: parse(f).serialize() != f")
        if ser != want:
            pass
        else:
            back2 = RTCMReader.parse(ser)
            if back2.payload != payload:
                out.bad("parse-not-inverse", f"{name}: parse(serialize()) payload differs")
    except Exception as err:  # pylint: disable=broad-except
        out.bad("valid-frame-rejected", f"{name}: parse(reference frame, {len(want)} B) raises "
                f"{type(err).__name__}: {err}")
    # a message obtained from a frame with a WRONG trailer (validation off) must still serialise
    # canonically: the checksum is computed, never carried over from the wire
    try:
        import io  # pylint: disable=import-outside-toplevel

        for trailer in (b"\x00\x00\x00", bytes(b ^ 0x5A for b in want[-3:])):
            if trailer == want[-3:]:
                continue
            bad = want[:-3] + trailer
            m0 = RTCMReader.parse(bad, validate=0)
            if m0.serialize() != want:
                out.bad("serialize-noncanonical:crc-carried-over",
                        f"{name}: parse(frame with trailer {trailer.hex()}, validate=0).serialize() "
                        f"ends in {m0.serialize()[-3:].hex()}, CRC-24Q is {want[-3:].hex()}")
                break
            rd = RTCMReader(io.BytesIO(bad), validate=0, quitonerror=0)
            _raw, m1 = rd.read()
            if m1 is None or m1.serialize() != want:
                out.bad("serialize-noncanonical:crc-carried-over",
                        f"{name}: reader(validate=0) message serialises non-canonically")
                break
    except Exception as err:  # pylint: disable=broad-except
        out.bad("validate-off-rejects", f"{name}: {type(err).__name__}: {err}")
    try:
        clone = eval(repr(msg), {"RTCMMessage": RTCMMessage, "__builtins__": {}})  # pylint: disable=eval-used
        if clone.payload != payload:
            out.bad("repr-not-evaluable", f"{name}: eval(repr(m)).payload differs")
    except Exception as err:  # pylint: disable=broad-except
        out.bad("repr-not-evaluable", f"{name}: eval(repr(m)) raises {type(err).__name__}: {err}")
    # the same for a message built with another label option, through each way of building it
    import io as _io  # pylint: disable=import-outside-toplevel

    for lm in (2, 0):
        ref_attrs = None
        for how, make in (("constructor", lambda lm=lm: RTCMMessage(payload=payload, labelmsm=lm)),
                          ("parse", lambda lm=lm: RTCMReader.parse(want, labelmsm=lm)),
                          ("parse(validate=0)", lambda lm=lm: RTCMReader.parse(want, labelmsm=lm, validate=0)),
                          ("reader", lambda lm=lm: RTCMReader(_io.BytesIO(want), labelmsm=lm).read()[1]),
                          ("reader(validate=0)", lambda lm=lm: RTCMReader(_io.BytesIO(want), labelmsm=lm,
                                                                          validate=0).read()[1])):
            try:
                m2 = make()
                if m2 is None:
                    raise ValueError("no message")
            except Exception:  # pylint: disable=broad-except
                continue  # reported by C16 / C04
            # serialise -> read back gives the same attribute values, whichever entry point reads
            if ref_attrs is None:
                ref_attrs = R.public_attrs(m2)
            elif R.public_attrs(m2) != ref_attrs:
                out.bad("parse-not-inverse", f"{name}: the frame read back through {how} with labelmsm={lm} "
                        f"has other attribute values than the message it was serialised from")
            try:
                clone = eval(repr(m2), {"RTCMMessage": RTCMMessage, "__builtins__": {}})  # pylint: disable=eval-used
                if clone.payload != payload:
                    out.bad("repr-not-evaluable", f"{name}: eval(repr(m)).payload differs for a message "
                            f"built by {how} with labelmsm={lm}")
                if m2.serialize() != want:
                    out.bad("serialize-noncanonical:labelmsm", f"{name}: labelmsm={lm} changes serialize()")
            except Exception as err:  # pylint: disable=broad-except
                out.bad("repr-not-evaluable", f"{name}: repr / eval(repr(m)) raises {type(err).__name__}: "
                        f"{err} for a message built by {how} with labelmsm={lm}")
    # once more at the very end, after the constructions above (other label options, other entry
    # points) have gone by: the frame still reads back as the message it was serialised from
    try:
        again = RTCMReader.parse(want)
        if R.public_attrs(again) != R.public_attrs(msg) or str(again) != str(msg):
            out.bad("parse-not-inverse", f"{name}: parse(serialize()) at the end of the case differs from "
                    f"the message built at its beginning")
    except Exception as err:  # pylint: disable=broad-except
        out.bad("valid-frame-rejected", f"{name}: {type(err).__name__}: {err}")
    out.obs = core.h64(payload)
    return out


def _judge_reader_case(case):
    """Replay of one recorded reader execution."""
    from mc import readerharness as H  # pylint: disable=import-outside-toplevel

    out = core.Outcome()
    source, validate = case["source"], case["validate"]
    rec = H.execute(source, case["choices"], validate=validate, quitonerror=0, parsed=True,
                    returns=bytearray if case.get("returns") == "bytearray" else bytes)
    for ev in rec["events"]:
        if ev[0] == "foreign":
            out.bad("reader-breaks", f"{case['name']}: read() raised {ev[1]}: {ev[3]}")
    H.check_pairs(source, rec["events"], out, validate=validate)
    for ev in rec["events"]:
        if ev[0] == "pair" and ev[4] is not None:
            raw = bytes(ev[3])
            want = raw[:-3] + pinned.crc24q_table(raw[:-3]).to_bytes(3, "big")
            if ev[4].serialize() != want:
                out.bad("reader-message-does-not-serialise-to-its-frame", f"{case['name']}")
    return out


def reader_roundtrip(item):
    """
    Messages as a READER hands them out -- also right after a read that was cut short (a serial
    port timing out inside a frame), with validation on and off: the raw bytes are the bytes of
    the stream, and serialising the parsed message reproduces them (with the right checksum).
    Every placement of <= 1 short/empty read over every stream of <= 2 items.
    """
    from mc import readerharness as H  # pylint: disable=import-outside-toplevel
    from mc.explore import explore  # pylint: disable=import-outside-toplevel

    name, source = item
    st = core.Stats()
    for validate, returns in ((0, bytes), (1, bytes), (1, bytearray)):
        def body(ch, validate=validate, returns=returns):
            out = core.Outcome()
            rec = H.execute(source, (), validate=validate, quitonerror=0, parsed=True, chooser=ch,
                            returns=returns)
            for ev in rec["events"]:
                if ev[0] == "foreign":
                    out.bad("reader-breaks", f"{name}: read() raised {ev[1]}: {ev[3]} over a stream "
                            f"returning {returns.__name__}")
            H.check_pairs(source, rec["events"], out, validate=validate)
            for ev in rec["events"]:
                if ev[0] != "pair" or ev[4] is None:
                    continue
                raw, msg = bytes(ev[3]), ev[4]
                want = raw[:-3] + pinned.crc24q_table(raw[:-3]).to_bytes(3, "big")
                try:
                    ser = msg.serialize()
                except Exception as err:  # pylint: disable=broad-except
                    out.bad("serialize-raises", f"{name}: {type(err).__name__}: {err}")
                    continue
                if ser != want:
                    out.bad("reader-message-does-not-serialise-to-its-frame",
                            f"{name} validate={validate}: reader returned raw {raw[:8].hex()}.. ({len(raw)} B) "
                            f"whose parsed message serialises to {ser[:8].hex()}.. ({len(ser)} B)")
            out.nontrivial = any(e[0] == "pair" for e in rec["events"])
            out.obs = core.h64(repr((name, validate, [(e[0], e[1]) for e in rec["events"]])))
            return out

        for choices, _devs, out in explore(body, bound=1):
            st.add({"name": name, "reader": True, "source": source, "validate": validate,
                    "choices": list(choices), "returns": returns.__name__}, out)
    return st


def reader_items(tier):
    import itertools  # pylint: disable=import-outside-toplevel

    from mc import items  # pylint: disable=import-outside-toplevel

    tbl = items.by_name()
    alpha = [tbl[n] for n in ("F2", "F19", "Fmsm", "Fnested", "Fsync", "nmeaG", "D3", "dmgcrc", "F0",
                              "Fcrc0d0a", "D303FF")]
    seqs = []
    for d in (1, 2) if tier == "quick" else (1, 2, 3):
        for combo in itertools.product(alpha, repeat=d):
            if d == 3 and sum(len(i["data"]) for i in combo) > 60:
                continue
            seqs.append(("+".join(i["name"] for i in combo), b"".join(i["data"] for i in combo)))
    return seqs


OPS = ("str", "repr", "serialize", "identity", "payload", "ismsm", "parse_msm", "parse_4076_201",
       "copy", "vars", "hash", "eq", "datadesc", "scribble")


def _scribble(obj, depth=0):
    """The caller changes, in place, whatever mutable object an earlier call handed out."""
    if isinstance(obj, bytearray):
        obj += b"\xaa\x55"
        obj[0] ^= 0xFF
    elif isinstance(obj, list):
        obj.append("scribbled")
    elif isinstance(obj, dict):
        obj["scribbled"] = 1
    elif isinstance(obj, tuple) and depth < 2:
        for o in obj:
            _scribble(o, depth + 1)


def _apply(msg, op, payload):
    import copy  # pylint: disable=import-outside-toplevel

    from pyrtcm import RTCMMessage, datadesc, parse_4076_201, parse_msm  # pylint: disable=import-outside-toplevel

    if op == "str":
        return str(msg)
    if op == "repr":
        return repr(msg)
    if op == "serialize":
        return msg.serialize()
    if op in ("identity", "payload", "ismsm"):
        return getattr(msg, op)
    if op == "parse_msm":
        return parse_msm(msg)
    if op == "parse_4076_201":
        return parse_4076_201(msg)
    if op == "copy":
        return copy.deepcopy(msg).serialize()
    if op == "vars":
        return sorted(vars(msg))
    if op == "hash":
        return hash(msg) is not None
    if op == "eq":
        return msg == RTCMMessage(payload=payload)
    return [datadesc(k) for k, _v in R.public_attrs(msg) if k.startswith(("DF", "IDF"))][:3]


def _judge_seq(name, payload, seq):
    """One message object, one sequence of public read-only operations, checked after every step."""
    from pyrtcm import RTCMMessage  # pylint: disable=import-outside-toplevel

    out = core.Outcome()
    want = pinned.frame(payload)
    fresh = RTCMMessage(payload=payload)
    ref_attrs, ref_ident, ref_str = R.public_attrs(fresh), fresh.identity, str(fresh)
    msg = RTCMMessage(payload=payload)
    last = None
    for k, op in enumerate(seq):
        try:
            if op == "scribble":
                _scribble(last)
            else:
                last = _apply(msg, op, payload)
        except Exception as err:  # pylint: disable=broad-except
            # only the operations C07 itself speaks about must succeed; the others (helpers,
            # hashing, comparison, copying) are history elements here and other checks' subject
            if op in ("str", "repr", "serialize", "identity", "payload"):
                out.bad("operation-raises", f"{name}: {op} after {list(seq[:k])} raises {type(err).__name__}: {err}")
                break
        try:
            ser = msg.serialize()
            clone = eval(repr(msg), {"RTCMMessage": RTCMMessage, "__builtins__": {}})  # pylint: disable=eval-used
            if ser != want:
                out.bad("serialize-noncanonical:after-calls",
                        f"{name}: after {list(seq[:k + 1])} serialize() is no longer the canonical frame")
            elif clone.payload != payload:
                out.bad("repr-not-evaluable", f"{name}: after {list(seq[:k + 1])} eval(repr(m)).payload differs")
            elif R.public_attrs(msg) != ref_attrs or msg.identity != ref_ident or str(msg) != ref_str:
                out.bad("message-changed-by-read-only-call",
                        f"{name}: after {list(seq[:k + 1])} attributes / identity / str() differ from a fresh message")
        except Exception as err:  # pylint: disable=broad-except
            out.bad("operation-raises", f"{name}: after {list(seq[:k + 1])}: {type(err).__name__}: {err}")
        if out.violations:
            break
    out.transitions = len(seq)
    out.obs = core.h64(repr((name, tuple(seq))))
    return out


def object_histories(item):
    """
    One message object driven through every sequence of <= 3 public read-only operations (string
    forms, serialisation, properties, the array helpers, copying, comparison, description look-up):
    after each step serialize() is still the canonical frame, repr still evaluates to the payload,
    and the attributes are those of a freshly built message.  (E2-style exploration of the
    method-call histories of one real object; the state is the object itself.)  The operation
    'scribble' is the CALLER changing in place the mutable object the previous call returned (a
    bytearray, list or dict), which must not reach back into the message.
    """
    import itertools  # pylint: disable=import-outside-toplevel

    from pyrtcm import RTCMMessage  # pylint: disable=import-outside-toplevel

    name, payload, depth = item
    st = core.Stats()
    try:
        RTCMMessage(payload=payload)
    except Exception:  # pylint: disable=broad-except
        return st
    for d in range(1, depth + 1):
        for seq in itertools.product(OPS, repeat=d):
            st.add({"name": name, "objhist": True, "payload": payload, "seq": list(seq)},
                   _judge_seq(name, payload, seq))
    return st


def steered():
    """Known-type payloads at the length boundaries."""
    out = []
    targets = [255, 256, 257, 511, 512, 513, 767, 768, 1022, 1023]
    for t in targets:
        # 1029: 9 bytes + N text units (N <= 255)
        n = t - 9
        if 0 <= n <= 255:
            out.append(("1029", {"DF139": n, "DF138": min(n, 127)}, t))
        # 1033: 9 bytes + five counters
        rest = t - 9
        cnt = []
        for _ in range(5):
            c = min(255, rest)
            cnt.append(c)
            rest -= c
        if rest == 0:
            out.append(("1033", dict(zip(["DF029", "DF032", "DF227", "DF229", "DF231"], cnt)), t))
        # 1008: 6 bytes + N + M
        rest = t - 6
        a = min(255, rest)
        b = rest - a
        if 0 <= b <= 255:
            out.append(("1008", {"DF029": a, "DF032": b}, t))
    res = []
    for ident, shape, t in out:
        try:
            payload, _o, _n = R.build(ident, shape, "fp")
        except (R.BadDefinition, R.TooLong):
            continue
        res.append({"name": f"{ident}@{t}", "payload": payload, "must_parse": True,
                    "want_len": t})
    return res


def cases(tier):
    fp = bytes((53 * i + 19) & 0xFF for i in range(1023))
    for num in (0, 4095):
        hdr = (num << 4).to_bytes(2, "big")
        for ln in range(2, 1024):
            for fill in (b"\x00", b"\xff", None, b"%"):
                tail = fp[: ln - 2] if fill is None else fill * (ln - 2)
                yield {"name": f"unk{num}/{ln}", "payload": hdr + tail, "must_parse": True}
    for it in corpus.build(tier):
        yield {"name": it["name"], "payload": it["payload"], "must_parse": it["kind"] != "fail"}
    yield from steered()
    from mc import items  # pylint: disable=import-outside-toplevel

    for nm, it in items.frames().items():
        if len(it["payload"]) >= 2:
            yield {"name": f"item:{nm}", "payload": it["payload"], "must_parse": True}
    # every MSM type with spare bytes that are special to string formatting / escaping layers
    from mc import shapes as S  # pylint: disable=import-outside-toplevel

    # shape-major: consecutive messages carry IDENTICAL masks under different constellations
    for k, shape in enumerate(S.msm_shapes("quick")):
        for num in pinned.MSM_NUMBERS:
            for extra in (b"%%", b"%d%s", b"%\x80", b"100%", b"{0}{}", b"\\x00'\"", b"\r\n"):
                try:
                    payload, _o, _n = R.build(str(num), shape, "fp", extra=extra)
                except (R.BadDefinition, R.TooLong):
                    continue
                yield {"name": f"{num}#{k}+{extra!r}", "payload": payload, "must_parse": True}
    for ln in range(22, 120):
        yield {"name": f"1077%/{ln}", "payload": b"\x43\x50" + b"%" * (ln - 2), "must_parse": False}
    # payloads whose frame has CRC-24Q exactly 000000 (a legitimate value, not a sentinel)
    for ln in (5, 6, 8, 21, 64, 255, 256, 700, 1023):
        for num in (999, 1005, 2000):
            body = ((num << 4) & 0xFFFF).to_bytes(2, "big") + fp[: ln - 5]
            hdr = b"\xd3" + ln.to_bytes(2, "big")
            tail = pinned.crc24q_table(hdr + body).to_bytes(3, "big")
            payload = body + tail
            if pinned.crc24q_table(hdr + payload) != 0:
                raise core.Broken("zero-CRC payload construction failed")
            yield {"name": f"zerocrc{num}/{ln}", "payload": payload, "must_parse": num != 1005}


def _work(chunk):
    return core.run_cases(judge, chunk, sample_every=1499)


def run(tier, seed, t0):
    allc = list(cases(tier))
    core.check_deterministic(judge, allc[100])
    st = core.pmap(_work, core.chunks(allc, 400))
    # the same cases under other interpreter configurations (-O, -OO, -W error, -X dev)
    core.interpreter_modes("C07", allc[:: max(1, len(allc) // 300)], st)
    ri = reader_items(tier)
    st2 = core.pmap(reader_roundtrip, ri)
    st.merge(st2)
    from mc import items as _items  # pylint: disable=import-outside-toplevel

    objs = [(it["name"], it["payload"], 3 if tier == "thorough" or k % 6 == 0 else 2)
            for k, it in enumerate(i for i in corpus.build(tier, per_identity=1) if i["kind"] != "fail")]
    objs += [(n, _items.frames()[n]["payload"], 3) for n in ("Fmsm", "FmsmB", "Fmsm64", "F19")]
    st3 = core.pmap(object_histories, objs)
    st.merge(st3)
    st.extra["object_history_sequences"] = st3.evaluations
    st.extra["reader_streams"] = len(ri)
    st.extra["reader_executions"] = st2.evaluations
    st.extra["steered_lengths"] = sorted({len(c["payload"]) for c in steered()})
    st.extra["steered_lengths"] = len(st.extra["steered_lengths"])
    return core.finish(
        "C07", tier, seed, LEVEL, st, RULE, t0,
        assumptions=["reference framing/CRC from mc/pinned.py (table-driven CRC-24Q)",
                     "payload contents are three fills per length, not all byte strings"],
    )
