"""
C08 -- CRC-24Q is computed correctly and all guaranteed-detectable damage is rejected.

(a) calc_crc24q / crc2bytes == two independent references (polynomial long
    division on integers; generated 256-entry table) on: all messages of
    length 0..2, every (position, byte) on zero / one backgrounds, every
    single-bit message per length; CRC over message||crc == 0.
(b) RTCMReader.parse(frame ^ e, validate=1) raises RTCMParseError for every
    e in the enumerated guaranteed-detectable families.
(c) validate=0: trailer bytes do not influence the parse result.
"""

import itertools

from mc import core, corpus, items, pinned
from mc import refmodel as R

LEVEL = "exploration"
RULE = (
    "case = a byte string given to calc_crc24q/crc2bytes (compared with two references) or a "
    "valid frame XOR an error pattern given to RTCMReader.parse(validate=1) (must raise "
    "RTCMParseError); families: see 'families' in this evidence; every member of a family is "
    "enumerated; non-trivial = every case (each exercises the CRC loop); distinct by construction"
)


def _check_crc(data, out, label):
    from pyrtcm import calc_crc24q, crc2bytes  # pylint: disable=import-outside-toplevel

    want = pinned.crc24q_table(data)
    got = calc_crc24q(data)
    if got != want:
        out.bad("crc-value-wrong", f"{label}: calc_crc24q({data[:16].hex()}.. {len(data)} B) = "
                f"{got:#08x}, reference {want:#08x}")
        return False
    return True


def run_crc_family(fam, st):
    from pyrtcm import calc_crc24q, crc2bytes  # pylint: disable=import-outside-toplevel

    kind = fam["kind"]
    n = 0

    def one(data, label):
        nonlocal n
        n += 1
        want = pinned.crc24q_table(data)
        got = calc_crc24q(data)
        ok = got == want
        if ok and fam.get("crc2bytes") and crc2bytes(data) != want.to_bytes(3, "big"):
            out = core.Outcome()
            out.bad("crc2bytes-wrong", f"{label}: crc2bytes({data[:12].hex()}.. {len(data)} B) -> "
                    f"{crc2bytes(data).hex()}, CRC-24Q is {want:06x}")
            st.add({"kind": "crc", "data": data}, out)
            st.evaluations -= 1
            st.nontrivial -= 1
        if not ok or n % 4099 == 1:
            out = core.Outcome()
            if not ok:
                out.bad("crc-value-wrong", f"{label}: calc_crc24q({data[:16].hex()}.. {len(data)} B) "
                        f"= {got:#08x}, reference {want:#08x}")
            elif pinned.crc24q_longdiv(data) != want:
                raise core.Broken("the two CRC references disagree")
            else:
                cb = crc2bytes(data)
                if cb != want.to_bytes(3, "big"):
                    out.bad("crc2bytes-wrong", f"{label}: crc2bytes -> {cb.hex()}, want {want:06x}")
                elif calc_crc24q(data + cb) != 0:
                    out.bad("crc-of-message-with-crc-not-zero", f"{label}")
            out.obs = got
            st.add({"kind": "crc", "data": data}, out, keep_sample=len(st.samples) < 1)
            st.evaluations -= 1
            st.nontrivial -= 1
        st.outcomes.add(got)

    if kind == "short":
        one(b"", "empty")
        for a in range(256):
            one(bytes([a]), "1 byte")
        for a in range(fam["lo"], fam["hi"]):
            for b in range(256):
                one(bytes([a, b]), "2 bytes")
    elif kind == "posbyte":
        ln, bg = fam["len"], fam["bg"]
        base = bytearray([bg]) * ln
        for pos in fam["positions"]:
            old = base[pos]
            for v in fam["values"]:
                base[pos] = v
                one(bytes(base), f"len {ln} bg {bg:#x} pos {pos}")
            base[pos] = old
    elif kind == "step":
        # the byte-step transition function on EVERY 24-bit register state: the CRC of a 3-byte
        # message ranges over all 2^24 states (the map is a bijection), so all 4-byte messages
        # with a given last byte exercise state x input exhaustively for that input
        tbl = pinned._TBL  # pylint: disable=protected-access
        b0 = fam["b0"]
        r0 = tbl[b0]
        for b1 in range(256):
            r1 = ((r0 << 8) & 0xFFFFFF) ^ tbl[(r0 >> 16) ^ b1]
            for b2 in range(256):
                r2 = ((r1 << 8) & 0xFFFFFF) ^ tbl[(r1 >> 16) ^ b2]
                for last in fam["last"]:
                    n += 1
                    want = ((r2 << 8) & 0xFFFFFF) ^ tbl[(r2 >> 16) ^ last]
                    data = bytes((b0, b1, b2, last))
                    got = calc_crc24q(data)
                    if got != want:
                        out = core.Outcome()
                        out.bad("crc-value-wrong:register-state",
                                f"calc_crc24q({data.hex()}) = {got:#08x}, reference {want:#08x} "
                                f"(register {r2:#08x} before the last byte)")
                        st.add({"kind": "crc", "data": data}, out)
                        st.evaluations -= 1
                        st.nontrivial -= 1
        st.extra["register_states_x_inputs"] = st.extra.get("register_states_x_inputs", 0) + 65536 * len(fam["last"])
    elif kind == "perlen":
        for ln in range(fam["lo"], fam["hi"]):
            one(b"\xff" * ln, f"ones {ln}")
            one(b"\x00" * (ln - 1) + b"\x01" if ln else b"", f"last bit {ln}")
            one(b"\x80" + b"\x00" * (ln - 1) if ln else b"", f"first bit {ln}")
            one(bytes((i * 37 + ln) & 0xFF for i in range(ln)), f"fp {ln}")
            if ln >= 3:
                # messages whose own remainder is zero (message || its CRC): the trailer of such a
                # message is 000000, not its last three bytes
                base = bytes((i * 53 + ln) & 0xFF for i in range(ln - 3))
                one(base + pinned.crc24q_table(base).to_bytes(3, "big"), f"zero remainder {ln}")
    elif kind == "singlebit":
        ln = fam["len"]
        for bit in range(ln * 8):
            b = bytearray(ln)
            b[bit // 8] = 0x80 >> (bit % 8)
            one(bytes(b), f"single bit {bit} of {ln} B")
    st.evaluations += n
    st.nontrivial += n


def run_err_family(fam, st):
    from pyrtcm import RTCMReader  # pylint: disable=import-outside-toplevel
    from pyrtcm.exceptions import RTCMParseError  # pylint: disable=import-outside-toplevel

    if fam["kind"] == "nested":
        frame = nested_frame(fam["inner"], fam["bit"])
    elif fam["kind"] == "embedded":
        frame = embedded_frame(fam["which"], fam["lead"])
        fam = {**fam, "len": len(frame)}
    elif fam["kind"] == "special":
        frame = items.frames()[fam["item"]]["data"]
        fam = {**fam, "len": len(frame)}
    else:
        frame = pinned.frame(items.unknown_payload(fam["len"] - 6, 4020, fam["len"])
                             if fam["len"] - 6 >= 2 else bytes([0x3E] * (fam["len"] - 6)))
        core.require(len(frame) == fam["len"], "C08 frame length")
    nbits = len(frame) * 8
    fi = int.from_bytes(frame, "big")
    n = 0
    seen = 0
    parts, part = fam.get("parts", 1), fam.get("part", 0)
    pre = fam.get("pre")

    def one(e):
        nonlocal n, seen
        seen += 1
        if seen % parts != part:
            return
        n += 1
        dmg = (fi ^ e).to_bytes(len(frame), "big")
        if pre:  # history: the same damaged bytes were first handled with validation off
            try:
                RTCMReader.parse(dmg, validate=0)
                if pre == "v0+good":
                    RTCMReader.parse(frame, validate=1)
            except Exception:  # pylint: disable=broad-except
                pass
        try:
            RTCMReader.parse(dmg, validate=fam.get("validate", 1))
            res = "accepted"
        except RTCMParseError:
            return
        except Exception as err:  # pylint: disable=broad-except
            res = f"{type(err).__name__}: {err}"
        if pinned.crc24q_table(dmg) == 0:
            raise core.Broken(f"family {fam} produced a pattern the reference CRC does not detect")
        out = core.Outcome()
        out.bad("damage-not-rejected:" + fam["kind"] + (":validate-flag" if "validate" in fam else "")
                + (":after-validate-off" if pre else ""),
                ("after the same bytes were parsed with validate=0: " if pre else "") + f"validate={fam.get('validate', 1)!r}: frame of {len(frame)} B with error pattern {e:#x} ({bin(e).count('1')} bits, span "
                f"{e.bit_length() - (e & -e).bit_length() + 1}) -> {res}")
        st.add({"kind": "err", "len": fam["len"], "e": hex(e), "pre": pre,
                "nested": [fam["inner"], fam["bit"]] if fam["kind"] == "nested" else None,
                "embedded": [fam["which"], fam["lead"]] if fam["kind"] == "embedded" else None,
                "special": fam.get("item")}, out)
        st.evaluations -= 1
        st.nontrivial -= 1

    kind = fam["kind"]
    if kind == "special":
        # frames with text-like / sync-like trailers and contents: every single bit, every adjacent
        # pair, every single-octet pattern in the last six octets, bursts up to 24 ending at the end
        for b in range(nbits):
            one(1 << b)
        for b in range(nbits - 1):
            one(3 << b)
        for pos in range(6):
            for v in range(1, 256):
                one(v << (8 * pos))
        for ln in range(2, 25):
            for mid in (0, (1 << (ln - 2)) - 1 if ln > 2 else 0):
                for start in (0, 8, 16, 24):
                    if start + ln <= nbits:
                        one(((1 << (ln - 1)) | (mid << 1) | 1) << start)
    elif kind == "embedded":
        # every pattern confined to the first three octets that touches the first one (a burst of
        # span <= 24), and every single-octet pattern anywhere (a burst of span <= 8)
        for b0 in range(1, 256):
            for b1 in (0x00, 0x01, 0x80, 0xFF):
                for b2 in (0x00, 0x01, 0x80, 0xFF):
                    one(((b0 << 16) | (b1 << 8) | b2) << (nbits - 24))
        for pos in range(1, len(frame)):
            for v in range(1, 256):
                one(v << (8 * (len(frame) - 1 - pos)))
    elif kind == "trailer":
        # the trailer REPLACED by a fixed value (all zero = "not filled in", all ones, text-like):
        # the error pattern is confined to the last 24 bits
        crc = fi & 0xFFFFFF
        for target in (0x000000, 0xFFFFFF, 0x0D0A0D, 0x00000A, 0x202020, 0x800000, 0x000001, 0x0A0A0A,
                       0x00000D, 0xD30000):
            if crc != target:
                one(crc ^ target)
    elif kind in ("1bit", "nested"):
        for b in range(nbits):
            one(1 << b)
    elif kind == "2bit":
        for a, b in itertools.combinations(range(nbits), 2):
            one((1 << a) | (1 << b))
    elif kind == "2bit-dist":
        # every distance from the first bit, and every position at the given distances
        for d in range(1, nbits):
            one((1 << (nbits - 1)) | (1 << (nbits - 1 - d)))
        for d in fam["dists"]:
            for a in range(0, nbits - d, fam.get("stride", 1)):
                one((1 << a) | (1 << (a + d)))
    elif kind == "3bit":
        for a, b, c in itertools.combinations(range(nbits), 3):
            one((1 << a) | (1 << b) | (1 << c))
    elif kind == "5bit":
        for combo in itertools.combinations(range(nbits), 5):
            e = 0
            for c in combo:
                e |= 1 << c
            one(e)
    elif kind == "odd":
        # odd-weight patterns: all bits of a window set / alternating windows of odd weight
        for w in (3, 5, 7, 9, 11, 23, 25):
            for start in range(0, nbits - 2 * w, fam.get("stride", 1)):
                e = 0
                for i in range(w):
                    e |= 1 << (start + 2 * i)
                one(e)
    elif kind == "burst":
        # every pattern of span b (first and last bit set) for b <= maxb at every start
        for b in ([fam["only"]] if "only" in fam else range(1, fam["maxb"] + 1)):
            inner = 1 if b <= 2 else 1 << (b - 2)
            for mid in range(inner):
                pat = 1 if b == 1 else (1 << (b - 1)) | (mid << 1) | 1
                for start in fam.get("starts") or range(0, nbits - b + 1):
                    if start + b <= nbits:
                        one(pat << start)
    elif kind == "burst-ends":
        for b in range(2, 25):
            for pat in ((1 << b) - 1, (1 << (b - 1)) | 1):
                for start in range(0, nbits - b + 1, fam.get("stride", 1)):
                    one(pat << start)
    st.evaluations += n
    st.nontrivial += n
    st.extra.setdefault("patterns_by_family", {})
    st.extra["patterns_by_family"][kind] = st.extra["patterns_by_family"].get(kind, 0) + n


def embedded_frame(which, lead):
    """
    A valid frame that carries a complete valid frame INSIDE its payload, laid out so that every
    suffix starting at the inner preamble is itself a CRC codeword: payload = number + ``lead``
    content bytes + CRC-24Q of everything so far (register back to zero) + inner frame; the outer
    trailer is then 000000.  A decoder that "tolerates" a damaged first octet by looking for the
    next preamble accepts the rest.
    """
    inner = {"1005": items.frames()["F19"]["data"], "unk": items.frames()["F2"]["data"]}[which]
    content = bytes((i * 29 + 5) & 0x7F for i in range(lead))  # no D3 before the inner frame
    num = b"\x4c\xe0"  # 1230
    ln = 2 + lead + 3 + len(inner)
    prefix = b"\xd3" + ln.to_bytes(2, "big") + num + content
    body = prefix + pinned.crc24q_table(prefix).to_bytes(3, "big") + inner
    frame = body + pinned.crc24q_table(body).to_bytes(3, "big")
    core.require(frame[-3:] == b"\x00\x00\x00" and pinned.frame_ok(frame), "embedded frame construction")
    return frame


def nested_frame(inner, bit):
    """
    A valid frame of payload length L = inner | 1<<bit whose first inner+6 bytes, once that one
    length bit is cleared, are themselves a valid frame: a decoder that trusts the length field
    and checksums only the declared prefix accepts the damaged frame.
    """
    outer = inner | (1 << bit)
    core.require(outer != inner and inner + 3 <= outer <= 1023, "C08 nested frame")
    p0 = items.unknown_payload(inner, 4021, bit)
    hdr_in = b"\xd3" + inner.to_bytes(2, "big")
    crc_in = pinned.crc24q_table(hdr_in + p0).to_bytes(3, "big")
    payload = p0 + crc_in + bytes((7 * i + bit) & 0xFF for i in range(outer - inner - 3))
    return pinned.frame(payload)


def run_v0(st, tier):
    from pyrtcm import RTCMReader  # pylint: disable=import-outside-toplevel

    special = [{"name": "item:" + n, "payload": f["payload"], "kind": "ok"}
               for n, f in items.frames().items() if len(f["payload"]) >= 2]
    for it in corpus.build(tier) + special:
        if it["kind"] == "fail":
            # a payload that does not decode: with validation off the OUTCOME (exception class and
            # text) must not depend on the trailer either
            frame = pinned.frame(it["payload"])

            def outcome(buf):
                try:
                    return ("ok", R.public_attrs(RTCMReader.parse(buf, validate=0)))
                except Exception as err:  # pylint: disable=broad-except
                    return ("exc", type(err).__name__, str(err))

            ref_o = outcome(frame)
            for bit in (0, 7, 8, 23):
                d = bytearray(frame)
                d[len(d) - 3 + bit // 8] ^= 0x80 >> (bit % 8)
                out = core.Outcome()
                got_o = outcome(bytes(d))
                if got_o != ref_o:
                    out.bad("validate0-crc-bytes-influence-result:failing-payload",
                            f"{it['name']}: with validate=0 a payload that does not decode gives {ref_o[:2]} "
                            f"under its right trailer but {got_o[:2]} with trailer bit {bit} flipped")
                out.obs = core.h64(bytes(d))
                st.add({"kind": "v0f", "name": it["name"], "bit": bit}, out)
            continue
        frame = pinned.frame(it["payload"])

        def result(buf):
            """Everything a caller can see of the parse result."""
            m = RTCMReader.parse(buf, validate=0)
            return (R.public_attrs(m), str(m), m.serialize(), m.payload, m.identity)

        ref = result(frame)
        for bit in range(24):
            d = bytearray(frame)
            d[len(d) - 3 + bit // 8] ^= 0x80 >> (bit % 8)
            out = core.Outcome()
            try:
                got = result(bytes(d))
                if got != ref:
                    what = [n for n, a, b in zip(("attributes", "str()", "serialize()", "payload", "identity"),
                                                 got, ref) if a != b]
                    out.bad("validate0-crc-bytes-influence-result",
                            f"{it['name']}: flipping trailer bit {bit} changes {what} of the validate=0 result")
            except Exception as err:  # pylint: disable=broad-except
                out.bad("validate0-rejects", f"{it['name']}: trailer bit {bit}: {type(err).__name__}: {err}")
            out.obs = core.h64(bytes(d))
            st.add({"kind": "v0", "name": it["name"], "bit": bit}, out)
        # history: a frame of the same length with DIFFERENT content but this frame's trailer
        pl = bytearray(it["payload"])
        if len(pl) >= 4:
            pl[-1] ^= 0x01
            pl[len(pl) // 2] ^= 0x10
            other = pinned.frame(bytes(pl))
            forged = other[:-3] + frame[-3:]
            out = core.Outcome()
            try:
                want = R.public_attrs(RTCMReader.parse(other, validate=0))
            except Exception:  # pylint: disable=broad-except
                want = None
            try:
                RTCMReader.parse(frame, validate=1)
                got = R.public_attrs(RTCMReader.parse(forged, validate=0))
            except Exception:  # pylint: disable=broad-except
                got = None
            if got != want:
                out.bad("validate0-crc-bytes-influence-result:history",
                        f"{it['name']}: after parsing frame X, a different frame carrying X's trailer "
                        f"decodes (validate=0) differently from the same payload with its own trailer")
            out.obs = core.h64(forged)
            st.add({"kind": "v0h", "name": it["name"]}, out)


def run_mutable(st):
    """
    The same bytearray OBJECT handed in again after the caller changed it in place (a receive
    buffer that is reused): the result belongs to the bytes it holds NOW.
    """
    from pyrtcm import RTCMReader, calc_crc24q, crc2bytes  # pylint: disable=import-outside-toplevel
    from pyrtcm.exceptions import RTCMParseError  # pylint: disable=import-outside-toplevel

    for ln in list(range(8, 40)) + [64, 256]:
        frame = pinned.frame(items.unknown_payload(ln - 6, 4021, ln))
        buf = bytearray(frame)
        out = core.Outcome()
        try:
            if calc_crc24q(buf) != 0:
                out.bad("crc-value-wrong", f"bytearray frame of {ln} B: non-zero remainder")
            RTCMReader.parse(buf, validate=1)
            for pos in (0, ln // 2, ln - 1):
                buf[pos] ^= 0x10  # in place: same object, other content
                want = pinned.crc24q_table(bytes(buf))
                got = calc_crc24q(buf)
                if got != want:
                    out.bad("crc-value-wrong:buffer-changed-in-place",
                            f"calc_crc24q of a {ln}-byte bytearray after an in-place change at {pos}: "
                            f"{got:#08x}, its content has {want:#08x}")
                    break
                if crc2bytes(buf) != want.to_bytes(3, "big"):
                    out.bad("crc-value-wrong:buffer-changed-in-place", f"crc2bytes, {ln} B, position {pos}")
                    break
                try:
                    RTCMReader.parse(buf, validate=1)
                    out.bad("damage-not-rejected:buffer-changed-in-place",
                            f"a {ln}-byte bytearray frame validated once, then changed in place at octet {pos}, "
                            f"is accepted by parse(validate=1)")
                    break
                except RTCMParseError:
                    pass
                except Exception:  # pylint: disable=broad-except
                    pass
                buf[pos] ^= 0x10
                RTCMReader.parse(buf, validate=1)
        except Exception as err:  # pylint: disable=broad-except
            out.bad("crc-value-wrong", f"bytearray input of {ln} B: {type(err).__name__}: {err}")
        out.obs = core.h64(frame)
        st.add({"kind": "mutable", "len": ln}, out)


@core.guard
def judge(case):
    """Replay of a single recorded case."""
    from pyrtcm import RTCMReader, calc_crc24q  # pylint: disable=import-outside-toplevel
    from pyrtcm.exceptions import RTCMParseError  # pylint: disable=import-outside-toplevel

    out = core.Outcome()
    if case["kind"] == "crc":
        _check_crc(case["data"], out, "replay")
    elif case["kind"] == "err":
        ln = case["len"]
        frame = nested_frame(*case["nested"]) if case.get("nested") else \
            embedded_frame(*case["embedded"]) if case.get("embedded") else \
            items.frames()[case["special"]]["data"] if case.get("special") else \
            pinned.frame(items.unknown_payload(ln - 6, 4020, ln) if ln - 6 >= 2
                         else bytes([0x3E] * (ln - 6)))
        ln = len(frame)
        dmg = (int.from_bytes(frame, "big") ^ int(case["e"], 16)).to_bytes(ln, "big")
        if case.get("pre"):
            try:
                RTCMReader.parse(dmg, validate=0)
                if case["pre"] == "v0+good":
                    RTCMReader.parse(frame, validate=1)
            except Exception:  # pylint: disable=broad-except
                pass
        try:
            RTCMReader.parse(dmg, validate=1)
            out.bad("damage-not-rejected:replay", f"pattern {case['e']} on {ln}-byte frame accepted")
        except RTCMParseError:
            pass
        except Exception as err:  # pylint: disable=broad-except
            out.bad("damage-not-rejected:replay", f"{type(err).__name__}: {err}")
    out.obs = 0
    return out


def _work(fam):
    st = core.Stats()
    if fam["kind"] in ("short", "posbyte", "singlebit", "perlen", "step"):
        run_crc_family(fam, st)
    elif fam["kind"] == "v0":
        run_v0(st, fam["tier"])
        run_mutable(st)
    else:
        run_err_family(fam, st)
    return st


def plan(tier):
    fams = []
    for lo in range(0, 256, 16):
        fams.append({"kind": "short", "lo": lo, "hi": lo + 16, "crc2bytes": True})
    for lo in range(0, 1030, 65):
        fams.append({"kind": "perlen", "lo": lo, "hi": min(lo + 65, 1031), "crc2bytes": True})
    last = [0x00] if tier == "quick" else [0x00, 0xFF, 0x01, 0x80, 0x55, 0xAA, 0xD3, 0x7F]
    for b0 in range(256):
        fams.append({"kind": "step", "b0": b0, "last": last, "len": 40})
    big = [255, 256, 257, 511, 512, 513, 1023, 1024, 1025, 1026, 1027, 1028, 1029]
    lens = list(range(1, 41)) + big if tier == "quick" else list(range(1, 1030))
    for ln in lens:
        fams.append({"kind": "singlebit", "len": ln})
    for ln in (list(range(1, 41)) + big if tier == "thorough" else list(range(1, 25)) + [256, 1029]):
        for bg in (0x00, 0xFF):
            if ln <= 40:
                fams.append({"kind": "posbyte", "len": ln, "bg": bg, "positions": list(range(ln)),
                             "values": list(range(256))})
            else:
                fams.append({"kind": "posbyte", "len": ln, "bg": bg, "positions": list(range(ln)),
                             "values": [0x01, 0x80, 0xFF, 0x00, 0xD3]})
                fams.append({"kind": "posbyte", "len": ln, "bg": bg,
                             "positions": [0, 1, ln // 2, ln - 2, ln - 1], "values": list(range(256))})
    # (b)
    l1 = [6, 7, 8, 9, 14, 25, 64, 255, 256, 257, 1028, 1029] if tier == "quick" else list(range(6, 1030))
    for ln in l1:
        fams.append({"kind": "1bit", "len": ln})
    for ln in ([6, 8, 16, 24, 64] if tier == "quick" else list(range(6, 65)) + [256]):
        fams.append({"kind": "2bit", "len": ln})
    for ln in (list(range(6, 80)) + [255, 256, 257, 1028, 1029] if tier == "quick" else range(6, 1030)):
        fams.append({"kind": "trailer", "len": ln})
    # every value of the validate flag that has the checksum bit set
    for v in (True, 3, 5, 0x81, 0xFF, 257, 0xFFFF):
        for ln in (6, 25, 64):
            fams.append({"kind": "1bit", "len": ln, "validate": v})
    # histories: the damaged bytes are first parsed with validation off (and the good frame with
    # validation on), then with validation on -- an earlier lenient call must not vouch for them
    for pre in ("v0", "v0+good"):
        for ln in ([6, 7, 8, 9, 14, 25, 64, 256] if tier == "quick" else list(range(6, 80)) + [256, 1029]):
            fams.append({"kind": "1bit", "len": ln, "pre": pre})
        fams.append({"kind": "2bit", "len": 8, "pre": pre})
        fams.append({"kind": "burst", "len": 9, "maxb": 10, "pre": pre})
    for inner in ((2, 4, 19) if tier == "quick" else (2, 3, 4, 5, 8, 19, 33, 100, 255)):
        for bit in range(10):
            outer = inner | (1 << bit)
            if outer != inner and inner + 3 <= outer <= 1023 and (tier == "thorough" or outer <= 300
                                                                  or bit == 9):
                fams.append({"kind": "nested", "inner": inner, "bit": bit, "len": outer + 6})
    for nm in ("Fcrc0d0a", "Fcrc0a", "Fcrc24", "FcrcB5", "FcrcD3", "Fcrc000", "FcrcFFF", "FcrcD300",
               "Fnested", "Fsync", "Fcol1", "F4076unk"):
        fams.append({"kind": "special", "item": nm, "len": 0})
    for which in ("1005", "unk"):
        for lead in ((0, 1, 4) if tier == "quick" else (0, 1, 2, 3, 4, 9, 30)):
            fams.append({"kind": "embedded", "which": which, "lead": lead, "len": 0})
    fams.append({"kind": "2bit-dist", "len": 1029, "dists": [1, 24] if tier == "quick"
                 else [1, 2, 23, 24, 25, 8231], "stride": 1})
    for ln in ([6, 8] if tier == "quick" else [6, 7, 8, 9, 10]):
        fams.append({"kind": "3bit", "len": ln})
    if tier == "thorough":
        fams.append({"kind": "5bit", "len": 6})
    for ln in ([9, 64, 1029] if tier == "quick" else [6, 9, 16, 64, 256, 1029]):
        fams.append({"kind": "odd", "len": ln, "stride": 1 if ln < 1000 else 7})
    for ln in ([6, 9, 16] if tier == "quick" else list(range(6, 17))):
        fams.append({"kind": "burst", "len": ln, "maxb": 10 if tier == "quick" else 12})
    if tier == "thorough":
        for start in (0, 9 * 8 - 24):
            for b in range(13, 25):
                fams.append({"kind": "burst", "len": 9, "maxb": b, "starts": [start], "only": b})
    fams.append({"kind": "burst-ends", "len": 1029, "stride": 16 if tier == "quick" else 1})
    fams.append({"kind": "burst-ends", "len": 64, "stride": 1})
    fams.append({"kind": "v0", "tier": tier})
    out = []
    for f in fams:  # split the heavy error families into parallel parts
        heavy = f["kind"] in ("2bit-dist", "burst-ends", "odd") and f["len"] > 1000 or \
            f["kind"] in ("2bit",) and f["len"] >= 64 or f["kind"] in ("5bit",) or \
            f["kind"] == "burst" and f.get("only", 0) >= 20
        if heavy:
            for p in range(16):
                out.append({**f, "parts": 16, "part": p})
        else:
            out.append(f)
    return out


def run(tier, seed, t0):
    fams = plan(tier)
    core.check_deterministic(judge, {"kind": "crc", "data": b"123456789"})
    if pinned.crc24q_table(b"123456789") != 0xCDE703 or pinned.crc24q_longdiv(b"123456789") != 0xCDE703:
        raise core.Broken("reference CRC-24Q check value")
    # heaviest first
    fams.sort(key=lambda f: -(f.get("len", 1) ** (2 if f["kind"] in ("2bit", "singlebit", "1bit") else 1)))
    st = core.pmap(_work, fams)
    st.extra["families"] = len(fams)
    st.samples = st.samples[:3] + [f for f in fams[:3]]
    return core.finish(
        "C08", tier, seed, LEVEL, st, RULE, t0,
        assumptions=[
            "the universal guarantee (all messages, all double-bit patterns at 1029 bytes, all bursts "
            "at every start of every length) is a theorem about the generator polynomial; this check "
            "decides agreement of the implementation with the references and the rejection guard on "
            "the enumerated families only",
            "references: polynomial long division on Python integers and an independently generated "
            "table-driven CRC; check value 0xCDE703 for '123456789'",
        ],
    )
