"""
C19 -- attribute-name helpers handle every name the parser generates.

Space: every public attribute name of every corpus message and of the maximal
shapes (1-, 2-, 3-digit indices; one and two nesting levels), for every
DF/IDF key occurring in any definition, incl. DF001_n, DF422_n, ExtSatInfo,
PRN/CELLPRN/CELLSIG.  (key, indices) of each name come from the reference
layout; the name must actually be present on the really parsed message.
"""

from mc import core
from mc import refmodel as R
from mc import shapes as S

LEVEL = "exploration"
RULE = (
    "case = one distinct attribute name produced by the real parser (with its data-field key and "
    "index tuple known from the reference layout); names are collected from all identities x all "
    "quick shapes + maximal shapes; non-trivial = indexed or non-DFnnn key (the names the naive "
    "5-character prefix rule cannot handle) ; distinct = distinct names"
)


def _safe(fn, arg):
    try:
        return fn(arg)
    except Exception as err:  # pylint: disable=broad-except
        return f"{type(err).__name__}"


@core.guard
def judge(case):
    from pyrtcm import RTCM_DATA_FIELDS, att2idx, att2name, datadesc  # pylint: disable=import-outside-toplevel

    out = core.Outcome()
    name, key = case["name"], case["key"]
    idx = tuple(case["idx"]) if case["idx"] is not None else None
    plain_df = len(key) == 5 and key[:2] == "DF" and key[2:].isdigit()
    out.nontrivial = bool(idx) or not plain_df
    want = RTCM_DATA_FIELDS[key][3]
    try:
        got = datadesc(name)
        if got != want:
            out.bad("datadesc-wrong-row:" + ("indexed" if idx else "plain"),
                    f"datadesc({name!r}) = {got!r}, data field {key} says {want!r}")
    except Exception as err:  # pylint: disable=broad-except
        kind = "IDF" if key.startswith("IDF") else "derived" if key in R.DERIVED else \
            "suffixed-key" if "_" in key else "other"
        out.bad(f"datadesc-raises:{kind}", f"datadesc({name!r}) raises {type(err).__name__}: {err}")
    if idx is None:
        out.bad("att2idx-wrong:name-not-from-layout",
                f"the parser produced the attribute name {name!r} (data field {key}), which is not the "
                f"field key plus one _NN suffix per nesting level of any field occurrence of the message; "
                f"att2idx gives {_safe(att2idx, name)!r}")
    elif idx:
        try:
            gi = att2idx(name)
            wi = idx[0] if len(idx) == 1 else idx
            if gi != wi or type(gi) is not type(wi):
                out.bad("att2idx-wrong", f"att2idx({name!r}) = {gi!r}, want {wi!r}")
        except Exception as err:  # pylint: disable=broad-except
            out.bad("att2idx-raises", f"att2idx({name!r}) raises {type(err).__name__}: {err}")
        try:
            gn = att2name(name)
            if gn != key:
                out.bad("att2name-wrong", f"att2name({name!r}) = {gn!r}, want {key!r}")
        except Exception as err:  # pylint: disable=broad-except
            out.bad("att2name-raises", f"att2name({name!r}) raises {type(err).__name__}: {err}")
    out.obs = core.h64(name)
    return out


def _collect(item):
    from pyrtcm import RTCMMessage  # pylint: disable=import-outside-toplevel

    identity, shapes = item
    st = core.Stats()
    names = {}
    for shape in shapes:
        try:
            payload, occs, _n = R.build(identity, shape, "fp")
            msg = RTCMMessage(payload=payload)
        except Exception:  # pylint: disable=broad-except
            continue
        have = set(vars(msg))
        refseq = []
        refval = {}
        for o in occs:
            if o.typ != "STR":
                refval[o.name] = (o.key, o.idx, o.value)
            nm = o.key if o.typ == "STR" else o.name
            if nm in have:
                names[nm] = (o.key, () if o.typ == "STR" else o.idx)
            if not refseq or refseq[-1][0] != nm:
                refseq.append((nm, o.key, () if o.typ == "STR" else o.idx))
        # names the parser produced that the layout does not know: the attribute created at the same
        # position stands for the reference field at that position, so its key and group index
        # are known -- the helpers are asked about the name the parser actually gave it
        real = [k for k in vars(msg) if not k.startswith("_")]
        # an indexed occurrence whose own name is missing while its value sits under the name of
        # ANOTHER occurrence of the same field: the parser generated that name for this occurrence
        for nm, (key, idx, val) in refval.items():
            if nm in have or not idx:
                continue
            for rn in real:
                other = refval.get(rn)
                if other and other[0] == key and other[2] != val and getattr(msg, rn) == val:
                    names[rn + "\x00reused"] = (key, idx)
                    break
        if len(real) == len(refseq):
            for rn, (nm, key, idx) in zip(real, refseq):
                if rn != nm and rn not in names:
                    names[rn] = (key, idx)
        else:
            for rn in real:
                if rn not in names and rn not in {r[0] for r in refseq}:
                    base, _, tail = rn.partition("_")
                    cand = [r for r in refseq if r[1] == base or r[1].startswith(base + "_")]
                    if cand:
                        names[rn] = (cand[0][1], None)  # index unknown: description / key only
    st.extra["names"] = {(n.partition("\x00")[0], k, i) for n, (k, i) in names.items()}
    return st


def run(tier, seed, t0):
    items = []
    for identity, _tbl in R.all_identities():
        try:
            shp = S.enumerate_shapes(identity, "quick")
        except R.BadDefinition:
            continue
        if tier == "thorough":
            shp = shp + [s for s in S.enumerate_shapes(identity, "thorough") if s not in shp][:400]
        for ch in core.chunks(shp, 40):
            items.append((identity, ch))
    st0 = core.pmap(_collect, items)
    names = sorted(st0.extra.get("names", set()), key=repr)
    cases = [{"name": n, "key": k, "idx": list(i) if i is not None else None} for n, k, i in names]
    if not cases:
        raise core.Broken("no attribute names collected")
    core.check_deterministic(judge, cases[0])
    st = core.Stats()
    for k, c in enumerate(cases):
        st.add(c, judge(c), keep_sample=(k % max(1, len(cases) // 5) == 0))
    # the helpers again in other orders within the same process (state kept between calls)
    resweep = 0
    for order in (list(reversed(cases)), sorted(cases, key=lambda c: (c["name"][::-1]))):
        for c in order:
            out = judge(c)
            if out.violations:
                st.add(c, out)
            resweep += 1
    # the helpers asked about strings that are NOT generated data-field names in between (a caller
    # walking vars(msg) meets '_payload', 'NSAT', ...): whatever they answer for those, the answers for
    # the generated names before and after must stay right
    foreign = ["_payload", "_NHarmCoeffC", "dodgy_xx", "NSAT", "", "_", "DF", "identity", "DF999_zz", "_01"]

    def poke(k):
        from pyrtcm import att2idx, att2name, datadesc  # pylint: disable=import-outside-toplevel

        for fn in (att2idx, att2name, datadesc):
            try:
                fn(foreign[k % len(foreign)])
            except Exception:  # pylint: disable=broad-except
                pass

    sub = cases[:: max(1, len(cases) // 1500)]
    for k, c in enumerate(sub):
        judge(c)
        poke(k)
        out = judge(c)
        if out.violations:
            st.add(c, out)
        resweep += 2
    st.extra["history_resweep_calls"] = resweep
    st.extra["max_index"] = max((max(c["idx"]) for c in cases if c["idx"]), default=0)
    st.extra["two_level_names"] = sum(1 for c in cases if c["idx"] and len(c["idx"]) == 2)
    st.extra["three_digit_names"] = sum(1 for c in cases if c["idx"] and max(c["idx"]) > 99)
    st.extra["keys_covered"] = len({c["key"] for c in cases})
    return core.finish(
        "C19", tier, seed, LEVEL, st, RULE, t0,
        assumptions=["the data-field key and index tuple of a name are taken from the reference "
                     "layout (mc/refmodel.py) and the name is confirmed present on the real message"],
    )
