"""
C17 -- reader options have only their documented effect.

Space: streams (depth-bounded) of good frames, frames with one flipped CRC
trailer bit (every one of the 24), NMEA, UBX  x  validate {0,1} x parsed
{True,False} x labelmsm {1,2} x quitonerror {0,1,2}.  Differential oracle.
"""

import itertools

from mc import core, items, pinned
from mc import readerharness as H
from mc import refmodel as R

LEVEL = "model_checking"
RULE = (
    "execution = one stream iterated on the real reader under every one of the 24 option "
    "combinations (validate x parsed x labelmsm x quitonerror) over a position-recording stream "
    "double; streams = all sequences up to the depth bound over {3 good frames, their 24 "
    "trailer-bit-damaged variants each, NMEA, UBX}; states = distinct (stream, cursor) between "
    "read() calls, transitions = read() calls; non-trivial = stream has a damaged frame or a "
    "foreign item; differential: validate=0 decodes damaged frames as the undamaged payload, "
    "parsed=False returns the same raws with parsed None, frame boundaries identical everywhere"
)
CFGS = [(v, p, lm, q) for v in (0, 1) for p in (True, False) for lm in (1, 2) for q in (0, 1, 2)]


def _delivered(kind, v, p):
    """Is an item of this kind handed out under validate=v, parsed=p?  (short = a legal frame with
    fewer than two payload bytes: it carries no message, so only the raw-only mode returns it)"""
    if kind == "frame":
        return True
    if kind == "damaged":
        return v == 0 or not p
    return not p


def attrs(msg):
    """Everything a caller can see of a decoded message: attributes, string form, serialised bytes."""
    if msg is None:
        return None
    return (R.public_attrs(msg), str(msg), msg.serialize(), msg.identity)


@core.guard
def judge(case):
    from pyrtcm import RTCMMessage, RTCMReader  # pylint: disable=import-outside-toplevel

    out = core.Outcome()
    its = case["items"]  # list of dicts: data, kind in frame|damaged|skip, payload
    source = b"".join(i["data"] for i in its)
    bounds, pos = [], 0
    for i in its:
        if i["kind"] in ("frame", "damaged", "short"):
            bounds.append((pos, pos + len(i["data"]), i))
        pos += len(i["data"])
    all_valid = all(i["kind"] != "damaged" for i in its)
    results = {}
    for v, p, lm, q in CFGS:
        rec = H.execute(source, (), validate=v, quitonerror=q, parsed=p, labelmsm=lm, faults=False)
        pairs = [(e[1], e[2], e[3], e[4]) for e in rec["events"] if e[0] == "pair"]
        results[(v, p, lm, q)] = (pairs, rec)
        name = f"{case['name']} validate={v} parsed={p} labelmsm={lm} quitonerror={q}"
        out.transitions += len(rec["events"])
        if any(e[0] in ("foreign", "nonterm") for e in rec["events"]):
            out.bad("reader-breaks", f"{name}: {[e for e in rec['events'] if e[0] in ('foreign', 'nonterm')][:2]}")
            continue
        if rec["stream"].pos != len(source):
            out.bad("stream-not-consumed", f"{name}: final cursor {rec['stream'].pos} != {len(source)}")
        # frame boundaries
        legal = {(a, b) for a, b, _ in bounds}
        for a, b, raw, _msg in pairs:
            if (a, b) not in legal:
                out.bad("frame-boundary-moved",
                        f"{name}: pair delivered from [{a},{b}), frames lie at {sorted(legal)}")
        # legal frames without a message ("short") may or may not be handed out: the property is
        # about what happens to the OTHER frames, so they are left out of the comparison
        shorts = {(a, b) for a, b, i in bounds if i["kind"] == "short"}
        want = [(a, b) for a, b, i in bounds if i["kind"] != "short" and _delivered(i["kind"], v, p)]
        got = [(a, b) for a, b, _r, _m in pairs if (a, b) not in shorts]
        pairs = [x for x in pairs if (x[0], x[1]) not in shorts]
        if got != want:
            if v == 0 and p and len(got) < len(want):
                sig = "validate-off-still-rejects"
            elif not p and all_valid:
                sig = "parsed-off-changes-frames"
            elif len(got) > len(want):
                sig = "damaged-frame-delivered-with-validation"
            else:
                sig = "frames-differ"
            out.bad(sig, f"{name}: delivered {got}, expected {want}")
            continue
        for (a, b, raw, msg), (_, _, item) in zip(pairs, [w for w in bounds if (w[0], w[1]) in got]):
            if raw != item["data"]:
                out.bad("raw-differs", f"{name}: raw at [{a},{b}) differs from the bytes sent")
            if not p:
                if msg is not None:
                    out.bad("parsed-off-returns-object", f"{name}: parsed={msg!r}")
                continue
            ref = RTCMMessage(payload=item["payload"], labelmsm=lm)
            if attrs(msg) != attrs(ref) or msg.payload != item["payload"]:
                out.bad("validate-off-decodes-differently" if item["kind"] == "damaged"
                        else "parsed-differs",
                        f"{name}: frame at [{a},{b}) decodes differently from its payload parsed directly")
    # static parser
    for a, b, item in bounds:
        if item["kind"] == "damaged":
            try:
                m0 = RTCMReader.parse(item["data"], validate=0)
                if attrs(m0) != attrs(RTCMMessage(payload=item["payload"])):
                    out.bad("validate-off-decodes-differently", f"{case['name']}: static parse")
            except Exception as err:  # pylint: disable=broad-except
                out.bad("validate-off-still-rejects", f"{case['name']}: RTCMReader.parse(validate=0) "
                        f"raises {type(err).__name__}: {err}")
    # parsed on/off differential on valid streams
    if all_valid:
        for v in (0, 1):
            for lm in (1, 2):
                for q in (0, 1, 2):
                    shorts = {(a, b) for a, b, i in bounds if i["kind"] == "short"}
                    on = [(a, b, r) for a, b, r, _ in results[(v, True, lm, q)][0] if (a, b) not in shorts]
                    off = [(a, b, r) for a, b, r, _ in results[(v, False, lm, q)][0] if (a, b) not in shorts]
                    if on != off:
                        out.bad("parsed-off-changes-frames",
                                f"{case['name']} validate={v} labelmsm={lm} q={q}: raw sequences differ")
    _int_flags(case, source, results, out)
    _rawio(case, source, results, out, bounds)
    _interleaved(case, source, results, out)
    _seekable(case, source, results, out, bounds)
    _typed(case, source, results, out, bounds)
    if case.get("sockets"):
        _sockets(case, source, out, bounds)
    out.states = len({e[1] if e[0] != "pair" else e[2] for _k, (_p, rec) in results.items()
                      for e in rec["events"]})
    out.nontrivial = not all_valid or any(i["kind"] == "skip" for i in its)
    out.obs = core.h64(repr((case["name"], [(k, [(a, b) for a, b, _, _ in v[0]])
                                            for k, v in sorted(results.items(), key=str)])))
    return out


def _int_flags(case, source, results, out):
    """parsed is documented as 1/0 as well as True/False; validate as 0/1 (also given as bools)."""
    for (v, p, lm, q), (pairs, _rec) in list(results.items()):
        if lm != 1 or q != 1:
            continue
        rec = H.execute(source, (), validate=bool(v), quitonerror=q, parsed=int(p), labelmsm=lm,
                        faults=False)
        got = [(e[1], e[2], e[3], attrs(e[4])) for e in rec["events"] if e[0] == "pair"]
        want = [(a, b, r, attrs(m)) for a, b, r, m in pairs]
        out.transitions += len(rec["events"])
        if got != want:
            out.bad("flag-type-changes-behaviour",
                    f"{case['name']}: parsed={int(p)!r}, validate={bool(v)!r} behaves differently from "
                    f"parsed={p!r}, validate={v!r}")
            break


def _drive(make_stream, position, key, case, out, label, n):
    """One reader over a stream of the given kind -> [(start, end, raw)] by the stream's OWN cursor."""
    from pyrtcm import RTCMReader  # pylint: disable=import-outside-toplevel

    lib = H.lib_exceptions()
    v, p, lm, q = key
    stream = make_stream()
    rdr = RTCMReader(stream, validate=v, quitonerror=q, parsed=p, labelmsm=lm,
                     errorhandler=lambda e: None)
    got = []
    for _ in range(n + 8):
        try:
            raw, msg = rdr.read()
        except lib:
            continue
        except Exception as err:  # pylint: disable=broad-except
            out.bad("reader-breaks", f"{case['name']} {key} ({label}): {type(err).__name__}: {err}")
            return None
        if raw is None and msg is None:
            break
        got.append((position(stream) - len(raw), position(stream), raw))
    out.transitions += len(got) + 1
    return got


def _cross(case, bounds, runs, out, label):
    """
    Differential oracle WITHIN one stream kind (so that anything the kind itself does, whatever the
    options, is not attributed to an option): the run with validation off and parsing on takes every
    frame; every other configuration must take the same bytes for each frame it delivers, deliver
    all of them when it does not validate, and exactly the undamaged ones when it does.
    """
    base_key = (0, False, 1, 0)  # validation off, parsing off: every frame-like item is handed out
    base = runs.get(base_key)
    if base is None:
        return
    kinds = None
    if len(base) == len(bounds) and all((a, b) == (x, y) for (a, b, _r), (x, y, _i) in zip(base, bounds)):
        kinds = {(a, b): i["kind"] for a, b, i in bounds}
    for key, got in runs.items():
        if got is None or key == base_key:
            continue
        v, p, lm, q = key
        name = (f"{case['name']}: reader(validate={v}, parsed={p}, labelmsm={lm}, quitonerror={q}) over "
                f"{label}")
        if kinds is not None:
            want = [x for x in base if kinds[(x[0], x[1])] != "short" and _delivered(kinds[(x[0], x[1])], v, p)]
            got = [x for x in got if kinds.get((x[0], x[1])) != "short"]
        elif not p:
            want = base
        else:
            it = iter(base)  # at least a subsequence of what the permissive reader took
            if all(any(x == y for y in it) for x in got):
                continue
            want = base
        if got != want:
            out.bad("option-changes-bytes-taken",
                    f"{name} leaves the stream at {[(a, b) for a, b, _ in got]} after each frame, "
                    f"reader(validate=0, parsed=False) over the same kind of stream at "
                    f"{[(a, b) for a, b, _ in base]}")
            return


def _rawio(case, source, results, out, bounds):
    """
    The caller's own unbuffered stream (an io.RawIOBase): after every read() the position of THAT
    stream must not depend on the options.
    """
    from mc.doubles import DribbleRaw  # pylint: disable=import-outside-toplevel

    runs = {key: _drive(lambda: DribbleRaw(source, 1 << 20), lambda s: s.pos, key, case, out,
                        "RawIOBase", len(source)) for key in CFGS if key[2] == 1}
    _cross(case, bounds, runs, out, "the caller's unbuffered RawIOBase stream")


def _typed(case, source, results, out, bounds):
    """The same stream handing its data over as bytearray (recv_into / readinto style objects)."""
    from mc.doubles import TypedStream  # pylint: disable=import-outside-toplevel

    runs = {key: _drive(lambda: TypedStream(source, None, bytearray, faults=False), lambda s: s.pos, key, case,
                        out, "bytearray stream", len(source)) for key in CFGS if key[2] == 1}
    _cross(case, bounds, runs, out, "a stream that returns bytearray")


def _sockets(case, source, out, bounds):
    """
    The same stream over a socket, plain and under each transfer encoding (chunked, chunked + gzip /
    zlib / raw deflate): the frames a configuration hands out must be the expected ones for its
    options.  Differential within one (socket, encoding) kind: when EVERY configuration misses its
    expectation the kind itself is at fault (other properties' subject); when some meet it and
    others do not, an option has changed what is read.
    """
    import zlib  # pylint: disable=import-outside-toplevel

    from pyrtcm import RTCMReader  # pylint: disable=import-outside-toplevel
    from mc.doubles import SegSocket  # pylint: disable=import-outside-toplevel

    lib = H.lib_exceptions()

    def wire_for(enc):
        if enc == 0:
            return source
        w = b""
        for k in range(0, len(source), 23):
            part = source[k:k + 23]
            if enc & 2:
                co = zlib.compressobj(6, zlib.DEFLATED, zlib.MAX_WBITS | 16)
                part = co.compress(part) + co.flush()
            elif enc & 4:
                part = zlib.compress(part)
            elif enc & 8:
                co = zlib.compressobj(6, zlib.DEFLATED, -zlib.MAX_WBITS)
                part = co.compress(part) + co.flush()
            w += f"{len(part):x}".encode() + b"\r\n" + part + b"\r\n"
        return w + b"0\r\n\r\n"

    for enc in (0, 1, 3, 5, 9):
        wire = wire_for(enc)
        verdicts = {}
        for key in CFGS:
            v, p, lm, q = key
            if lm != 1:
                continue
            sock = SegSocket(wire, [7, 40, 3])
            raws = []
            try:
                rdr = RTCMReader(sock, validate=v, quitonerror=q, parsed=p, labelmsm=lm, encoding=enc,
                                 errorhandler=lambda e: None)
                for _ in range(len(source) + 8):
                    try:
                        raw, msg = rdr.read()
                    except lib:
                        continue
                    if raw is None and msg is None:
                        break
                    raws.append(bytes(raw))
            except Exception as err:  # pylint: disable=broad-except
                raws = f"{type(err).__name__}: {err}"
            finally:
                sock.close()
            want = [i["data"] for _a, _b, i in bounds
                    if i["kind"] != "short" and _delivered(i["kind"], v, p)]
            shorts = {i["data"] for _a, _b, i in bounds if i["kind"] == "short"}
            got = [r for r in raws if r not in shorts] if isinstance(raws, list) else raws
            verdicts[key] = (got == want, got, want)
            out.transitions += 1
        good = [k for k, (ok, _g, _w) in verdicts.items() if ok]
        badk = [k for k, (ok, _g, _w) in verdicts.items() if not ok]
        if good and badk:
            k = badk[0]
            _ok, got, want = verdicts[k]
            out.bad("option-changes-bytes-taken:socket",
                    f"{case['name']} over a socket with encoding={enc}: reader(validate={k[0]}, parsed={k[1]}, "
                    f"quitonerror={k[3]}) hands out "
                    f"{[len(r) for r in got] if isinstance(got, list) else got} (frame lengths), expected "
                    f"{[len(r) for r in want]}; configurations {good[:3]} over the same socket meet their "
                    f"expectation")
            return


def _seekable(case, source, results, out, bounds):
    """The same stream as a seekable io.BytesIO."""
    import io  # pylint: disable=import-outside-toplevel

    runs = {key: _drive(lambda: io.BytesIO(source), lambda s: s.tell(), key, case, out, "BytesIO",
                        len(source))
            for key in CFGS}
    _cross(case, bounds, runs, out, "a seekable BytesIO")


def _interleaved(case, source, results, out):
    """
    All 24 readers alive at the same time, each over its own copy of the stream, advanced
    round-robin one read() at a time: every reader must deliver what it delivered alone.
    """
    from pyrtcm import RTCMReader  # pylint: disable=import-outside-toplevel
    from mc.doubles import FaultStream  # pylint: disable=import-outside-toplevel

    lib = H.lib_exceptions()
    readers = {}
    for v, p, lm, q in CFGS:
        stream = FaultStream(source, None, faults=False)
        readers[(v, p, lm, q)] = (RTCMReader(stream, validate=v, quitonerror=q, parsed=p, labelmsm=lm,
                                             errorhandler=lambda e: None), stream, [], [False])
    for _round in range(len(source) + 8):
        live = 0
        for key, (rdr, stream, got, done) in readers.items():
            if done[0]:
                continue
            live += 1
            try:
                raw, msg = rdr.read()
            except lib:
                continue
            except Exception as err:  # pylint: disable=broad-except
                out.bad("reader-breaks", f"{case['name']} {key} (interleaved): {type(err).__name__}: {err}")
                done[0] = True
                continue
            if raw is None and msg is None:
                done[0] = True
                continue
            got.append((stream.pos - len(raw), stream.pos, raw, attrs(msg)))
        out.transitions += live
        if not live:
            break
    for key, (_rdr, _stream, got, _done) in readers.items():
        alone = [(a, b, r, attrs(m)) for a, b, r, m in results[key][0]]
        if got != alone:
            v, p, lm, q = key
            out.bad("readers-interfere",
                    f"{case['name']}: reader(validate={v}, parsed={p}, labelmsm={lm}, quitonerror={q}) "
                    f"delivers {[(a, b) for a, b, _, _ in got]} when 23 differently configured readers "
                    f"are alive, but {[(a, b) for a, b, _, _ in alone]} alone"
                    + ("" if [(a, b) for a, b, _, _ in got] != [(a, b) for a, b, _, _ in alone]
                       else " (same frames, different decoded attributes)"))
            break


def alphabet(tier):
    f = items.frames()
    ptext, _o, _n = R.build("1029", {"DF139": 250, "DF138": 100}, "fp")  # 259-byte known type
    good = [f["F2"], f["F19"], f["Fmsm"], items.frame_item("Ftext259", ptext),
            items.frame_item("F300", items.unknown_payload(300, 4006)),
            items.frame_item("F1023", items.unknown_payload(1023, 4007)),
            f["Fnested"], f["Fsync"], f["Fcrc0d0a"],
            items.frame_item("Fnmea", b"\xfa\x20$GNGGA,1*00\r\n\xb5\x62\x01")]
    out = []
    for g in good:
        out.append({"name": g["name"], "data": g["data"], "kind": "frame", "payload": g["payload"]})
    for g in good:
        bits = range(24) if len(g["data"]) < 64 else (0, 23)
        for b in bits:
            d = bytearray(g["data"])
            d[len(d) - 3 + b // 8] ^= 0x80 >> (b % 8)
            out.append({"name": f"{g['name']}~{b}", "data": bytes(d), "kind": "damaged",
                        "payload": g["payload"]})
        # wrong trailers that are not single-bit neighbours of the right one: all zero, and the
        # trailer of another frame (two different frames may then carry the SAME trailer bytes)
        for tag, tr in (("zero", b"\x00\x00\x00"), ("copy", good[0]["data"][-3:]), ("24", b"\x12\x34\x24")):
            if g["data"][-3:] != tr:
                out.append({"name": f"{g['name']}~{tag}", "data": g["data"][:-3] + tr, "kind": "damaged",
                            "payload": g["payload"]})
    # legal frames that carry no message (0 / 1 payload bytes), one with a sync byte ending its trailer
    out.append({"name": "F0", "data": f["F0"]["data"], "kind": "short", "payload": None})
    for v in range(256):
        fr = pinned.frame(bytes([v]))
        if fr[-1] in (0xD3, 0x24, 0xB5):
            out.append({"name": f"F1:{v:02x}", "data": fr, "kind": "short", "payload": None})
            break
    out.append({"name": "nmeaG", "data": items.nmea("G"), "kind": "skip", "payload": None})
    out.append({"name": "ubx8", "data": items.ubx(b"\xd3\x00\xb5\x62\x24\x47\x0a\xd3"),
                "kind": "skip", "payload": None})
    return out


def cases(tier):
    alpha = alphabet(tier)
    out = []
    for combo in itertools.product(alpha, repeat=1):
        out.append({"name": "+".join(i["name"] for i in combo), "items": list(combo), "sockets": True})
    core_items = [a for a in alpha if a["kind"] != "damaged"]
    dmg = [a for a in alpha if a["kind"] == "damaged"]
    sel = dmg if tier == "thorough" else [d for d in dmg if d["name"].split("~")[1] in
                                          ("0", "7", "8", "16", "23", "zero", "copy", "24")]
    small = core_items + sel
    for k, combo in enumerate(itertools.product(small, repeat=2)):
        out.append({"name": "+".join(i["name"] for i in combo), "items": list(combo),
                    "sockets": tier == "thorough" or k % 5 == 0})
    tri = core_items + [d for d in dmg if d["name"].split("~")[1] in ("0", "7", "8", "15", "16", "23")]
    if tier == "quick":
        tri = core_items[:5] + [d for d in dmg if d["name"] in ("F2~23", "F19~0", "Fmsm~8", "F19~zero",
                                                                  "Fmsm~zero", "Fnested~zero")]
    for combo in itertools.product(tri, repeat=3):
        out.append({"name": "+".join(i["name"] for i in combo), "items": list(combo)})
    # a long run of damaged frames between two good ones (what validation skips must not pile up)
    byname = {a["name"]: a for a in alpha}
    for n in ((1200,) if tier == "quick" else (1200, 5000)):
        for dn in ("F19~0", "F2~zero"):
            run = [byname["F2"]] + [byname[dn]] * n + [byname["F19"]]
            out.append({"name": f"F2+{n}x{dn}+F19", "items": run})
    return out


def _work(chunk):
    return core.run_cases(judge, chunk, sample_every=701)


def run(tier, seed, t0):
    allc = cases(tier)
    core.check_deterministic(judge, allc[len(allc) // 2])
    st = core.pmap(_work, core.chunks(allc, 40))
    st.extra["configurations"] = len(CFGS)
    st.extra["executions"] = st.evaluations * len(CFGS)
    return core.finish(
        "C17", tier, seed, LEVEL, st, RULE, t0,
        assumptions=[
            "damage is a single flipped bit of the CRC trailer (the payload is intact, so the "
            "'same payload with a right checksum' is well defined)",
            "with parsed=False the reader performs no CRC validation at all, which the property "
            "leaves open for streams containing damaged frames (only valid streams are compared)",
        ],
    )
