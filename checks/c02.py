"""
C02 -- no valid frame is lost, duplicated or reordered on well-formed mixed input.

Space: all sequences of well-formed items (valid frames of several kinds incl.
0/1-byte payloads, NMEA, UBX, inert noise) up to depth d over BytesIO; depth
<= 2 additionally over BufferedReader (buffer sizes 1,2,7,8192 over a raw
stream dribbling 1/3 bytes) and over a socket.socket subclass with every
single segmentation point; plus the sweeps [F, F_k, F] for every payload
length k = 0..1023, every NMEA talker prefix and every inert byte value.
"""

import io
import itertools

from mc import core, items, pinned
from mc.doubles import DribbleRaw, NonTermination, SegSocket

LEVEL = "model_checking"
RULE = (
    "execution = iterate the real RTCMReader over one generated stream on one stream kind until "
    "StopIteration; streams: every sequence of <= d well-formed items, every payload length 0..1023 "
    "between two frames, every implemented type at every shape of the alphabet (largest group "
    "counts included) between two frames, every NMEA talker and every inert byte value between two "
    "frames; stream "
    "kinds: BytesIO, BufferedReader(buffer 1/2/7/8192 over a dribbling raw stream), socket with "
    "every single segmentation point; oracle: yielded raw frames with >= 2 payload bytes == the "
    "generator's own list; states = distinct (stream, frames-yielded-so-far) positions, "
    "transitions = next() calls; non-trivial = the stream holds at least one frame and one other item"
)


def _open(kind, data):
    """-> (stream object for RTCMReader, closer)"""
    if kind == "bytesio":
        return io.BytesIO(data), None
    if kind.startswith("buf"):
        _, bsz, step = kind.split(":")
        return io.BufferedReader(DribbleRaw(data, int(step)), buffer_size=int(bsz)), None
    if kind.startswith("sock"):
        parts = kind.split(":")
        segs = [int(x) for x in parts[1].split(",") if x] if len(parts) > 1 else []
        sock = SegSocket(data, segs)
        return sock, sock.close
    raise core.Broken(kind)


def iterate(kind, data, quitonerror=1, bufsize=4096):
    from pyrtcm import RTCMReader  # pylint: disable=import-outside-toplevel

    stream, closer = _open(kind, data)
    errs = []
    try:
        rdr = RTCMReader(stream, quitonerror=quitonerror, errorhandler=errs.append, bufsize=bufsize)
        raws, exc = [], None
        limit = len(data) + 8
        try:
            for raw, _parsed in rdr:
                raws.append(bytes(raw) if raw is not None else None)
                if len(raws) > limit:
                    exc = "nontermination"
                    break
        except NonTermination:
            exc = "nontermination"
        except Exception as err:  # pylint: disable=broad-except
            exc = f"{type(err).__name__}: {err}"
        if exc is None:
            # the reader is exhausted: iterating it again must not produce anything more
            try:
                again = [bytes(r) for r, _p in rdr if r is not None][:4]
                again += [bytes(r) for r, _p in iter(rdr) if r is not None][:4]
                if again:
                    exc = f"re-iteration after the end yields {len(again)} more item(s)"
            except NonTermination:
                exc = "nontermination"
            except Exception as err:  # pylint: disable=broad-except
                exc = f"re-iteration after the end raises {type(err).__name__}: {err}"
        return raws, exc, errs
    finally:
        if closer:
            closer()


@core.guard
def judge(case):
    out = core.Outcome()
    data = case["data"]
    emitted = case["frames"]  # all frames emitted, in order
    expect = [f for f in emitted if len(f) - 6 >= 2]
    raws, exc, errs = iterate(case["kind"], data, case.get("q", 1), case.get("bufsize", 4096))
    name = case.get("name", "")
    if exc == "nontermination":
        out.bad("nontermination", f"{name} on {case['kind']}: iteration does not stop")
    elif exc:
        out.bad("iterator-raises", f"{name} on {case['kind']}: {exc}")
    got = [r for r in raws if r is None or len(r) - 6 >= 2]
    small = [r for r in raws if r is not None and len(r) - 6 < 2]
    if got != expect:
        if len(got) < len(expect) and got == expect[: len(got)]:
            sig = "frame-lost:iteration-ended-early"
        elif len(got) < len(expect):
            sig = "frame-lost"
        elif len(got) > len(expect):
            sig = "frame-duplicated-or-spurious"
        else:
            sig = "frame-altered-or-reordered"
        out.bad(sig, f"{name} on {case['kind']}: yielded {len(got)} of {len(expect)} frames "
                f"(lengths {[len(r) if r else None for r in got][:8]} vs {[len(f) for f in expect][:8]}); "
                f"errors reported: {[str(e)[:60] for e in errs][:3]}")
    for r in small:
        if r not in emitted:
            out.bad("spurious-short-frame", f"{name}: yielded {r.hex()} which was never emitted")
    out.nontrivial = bool(expect) and len(case.get("names", [0, 0])) >= 2
    out.states = len(raws) + 1
    out.transitions = len(raws) + 1
    out.obs = core.h64(repr((name, case["kind"], [len(r) if r else None for r in raws], exc)))
    return out


def mk(names_items, kind, q=1, bufsize=4096):
    data = b"".join(i["data"] for i in names_items)
    return {
        "name": "+".join(i["name"] for i in names_items),
        "names": [i["name"] for i in names_items],
        "data": data,
        "frames": [i["data"] for i in names_items if i["kind"] == "frame"],
        "kind": kind,
        "q": q,
        "bufsize": bufsize,
    }


def cases(tier):
    alpha = items.wellformed(tier)
    depth = 4
    out = []
    if tier == "thorough":
        for combo in itertools.product(alpha[:10], repeat=5):
            out.append(mk(combo, "bytesio"))
    for d in range(1, depth + 1):
        for combo in itertools.product(alpha, repeat=d):
            out.append(mk(combo, "bytesio"))
            if d <= 2:
                out.append(mk(combo, "bytesio", q=0))
                for bk in ("buf:1:1", "buf:2:3", "buf:7:1", "buf:8192:3", "buf:8192:4096"):
                    out.append(mk(combo, bk))
                data_len = sum(len(i["data"]) for i in combo)
                out.append(mk(combo, "sock"))
                for cut in range(1, data_len):
                    out.append(mk(combo, f"sock:{cut}"))
                for bs in (1, 2, 5):
                    out.append(mk(combo, "sock", bufsize=bs))
                for seg in (1, 2, 3, 7):  # every recv() returns at most `seg` bytes
                    out.append(mk(combo, "sock:" + ",".join([str(seg)] * (data_len // seg + 1))))
            elif d == 3 and tier == "thorough":
                out.append(mk(combo, "buf:2:3"))
                out.append(mk(combo, "sock:7,1,2"))
    f = items.frames()
    a, b = f["F2"], f["F19"]
    for k in range(0, 1024):
        pl = items.unknown_payload(k, 4005, k) if k >= 2 else bytes([0x3E] * k)
        mid = items.frame_item(f"F{k}", pl)
        out.append(mk([a, mid, b], "bytesio"))
        if k % 64 in (0, 1, 63) or tier == "thorough":
            out.append(mk([a, mid, b], "sock:5"))
            out.append(mk([a, mid, b], "buf:7:1"))
    # every one-byte-payload filler frame directly before a frame (their CRC bytes take all values)
    for v in range(256):
        filler = items.frame_item(f"F1:{v:02x}", bytes([v]))
        out.append(mk([a, filler, b], "bytesio"))
        out.append(mk([filler, items.frames()["F2"], filler, items.frames()["F19"]], "bytesio", q=0))
    z = items.frame_item("F0", b"")
    out.append(mk([z, a, z, z, b, z], "bytesio"))
    # UBX frames of every length class of the 16-bit little-endian length field
    for n in (0, 1, 2, 255, 256, 257, 4095, 4096, 32767, 32768, 32769, 40000, 65535):
        body = bytes((i * 7 + 3) & 0x7F | 0x01 for i in range(n))
        it = {"name": f"ubx{n}", "data": items.ubx(body), "kind": "skip"}
        for kind in ("bytesio", "buf:8192:4096", "buf:7:3", "sock", "sock:9"):
            out.append(mk([a, it, b], kind))
        out.append(mk([it, a, it, b], "bytesio"))
    # 1-byte receives for large frames (a refill loop that costs stack depth per receive)
    for k in (255, 256, 1000, 1010, 1022, 1023):
        mid = items.frame_item(f"F{k}", items.unknown_payload(k, 4005, k))
        out.append(mk([a, mid, b], "sock", bufsize=1))
        out.append(mk([a, mid, b], "buf:1:1"))
    # every implemented type at every shape of the alphabet (incl. the largest group counts and
    # three-digit group indices): a well-formed frame of a known type is a frame like any other
    from mc import refmodel as R, shapes as S  # pylint: disable=import-outside-toplevel

    for identity, _tbl in R.all_identities():
        try:
            shp = S.enumerate_shapes(identity, "quick")
        except R.BadDefinition:
            continue
        for k, shape in enumerate(shp):
            try:
                payload, _o, _n = R.build(identity, shape, "fp")
            except (R.BadDefinition, R.TooLong):
                continue
            mid = items.frame_item(f"{identity}#{k}", payload)
            out.append(mk([a, mid, b], "bytesio"))
            if k % 5 == 0 or len(payload) > 200:
                out.append(mk([a, mid, b], "sock:9"))
            if any(o.typ in ("STR", "CHA") for o in _o):
                # text fields holding code units that are not ASCII / not valid UTF-8 / NUL
                for mode in ("ones", "nulmix"):
                    p2, _o2, _n2 = R.build(identity, shape, mode)
                    out.append(mk([a, items.frame_item(f"{identity}#{k}/{mode}", p2), b], "bytesio"))
    # several hundred DISTINCT frames through one reader (whatever a reader remembers per frame
    # reaches its capacity), known and unknown types mixed
    many = []
    for k in range(700):
        if k % 3 == 0:
            pl = bytearray(f["F19"]["payload"])
            pl[2], pl[3] = (k >> 8) & 0x0F | (pl[2] & 0xF0), k & 0xFF
            many.append(items.frame_item(f"1005/{k}", bytes(pl)))
        else:
            many.append(items.frame_item(f"unk/{k}", items.unknown_payload(4 + k % 5, 4008, k)))
    out.append(mk(many, "bytesio"))
    out.append(mk(many, "sock:4096"))
    # long runs of items the reader skips (thousands of NMEA sentences / UBX frames / noise bytes in
    # a row, no RTCM3 frame between them) followed by frames: the work done per skipped item must
    # not accumulate (nesting depth, per-item memory)
    talkers = list(items.NMEA_TALKERS)
    for count in (1500, 5000):
        runs = {
            "nmea": [{"name": "nm", "data": items.nmea(talkers[i % len(talkers)]), "kind": "skip"} for i in range(count)],
            "ubx": [{"name": "ub", "data": items.ubx(bytes([i & 0x7F | 1, 7])), "kind": "skip"} for i in range(count)],
            "mixed": [({"name": "nm", "data": items.nmea(talkers[i % len(talkers)]), "kind": "skip"} if i % 2 else
                       {"name": "ub", "data": items.ubx(b"\x01" * (i % 5)), "kind": "skip"}) for i in range(count)],
            "noise": [{"name": "nz", "data": bytes([1 + i % 0x20]), "kind": "skip"} for i in range(count * 4)],
        }
        for nm, run_items in runs.items():
            for kind in ("bytesio", "sock:4096") if count == 1500 else ("bytesio",):
                c = mk([a] + run_items + [b, a], kind)
                c["name"] = f"F+{count}x{nm}+F+F"
                c["names"] = ["F", nm, "F", "F"]
                out.append(c)
    # a UBX frame of the maximum length whose header ends exactly on a receive boundary
    big = {"name": "ubx65535", "data": items.ubx(bytes((i * 7 + 3) & 0x7F | 0x01 for i in range(65535))),
           "kind": "skip"}
    pad = {"name": "pad4090", "data": b"\x00" * 4090, "kind": "skip"}
    for kind, bs in (("sock", 4096), ("sock", 1), ("sock:" + ",".join(["4096"] * 20), 4096)):
        out.append(mk([pad, big, a, b], kind, bufsize=bs))
    for t in items.NMEA_TALKERS:
        it = {"name": f"nmea{t}", "data": items.nmea(t), "kind": "skip"}
        for kind in ("bytesio", "sock:9", "buf:2:3"):
            out.append(mk([a, it, b], kind))
            out.append(mk([it, a, it, b, it], kind))
    for v in range(256):
        if v in (0xD3, 0xB5, 0x24):
            continue
        it = {"name": f"n{v:02x}", "data": bytes([v]), "kind": "skip"}
        it3 = {"name": f"n{v:02x}x3", "data": bytes([v]) * 3, "kind": "skip"}
        out.append(mk([a, it, b], "bytesio"))
        out.append(mk([it3, a, it3, b, it], "bytesio"))
        out.append(mk([a, it, b], "sock:8"))
    return out


def _work(chunk):
    return core.run_cases(judge, chunk, sample_every=4001)


def run(tier, seed, t0):
    allc = cases(tier)
    core.check_deterministic(judge, allc[len(allc) // 2])
    st = core.pmap(_work, core.chunks(allc, 500))
    st.extra["stream_kinds"] = len({c["kind"].split(":")[0] for c in allc})
    st.extra["alphabet"] = len(items.wellformed(tier))
    return core.finish(
        "C02", tier, seed, LEVEL, st, RULE, t0,
        assumptions=[
            "frames with 0 or 1 payload bytes carry no message number: they may or may not be "
            "yielded, but must not end iteration or displace a neighbour",
            "ignore and log error modes (raise mode legitimately raises on a filler frame)",
            "socket segmentation here is a single cut point (all segmentations are C11's subject)",
        ],
    )
