"""
C13 -- a parse result depends only on the bytes parsed, not on history or threads.

Part A (E2, sequential histories): states = deep canonical snapshot (pickle) of
every module-level container of every pyrtcm module; operations = parse corpus
item x through RTCMMessage (label option 1/2), RTCMReader.parse or a reader.
Explored: all single operations, all ordered pairs of corpus items, all
depth-3 histories over a conflict set.  Invariants: tables == initial
snapshot; every observation == the item's reference observation taken in a
fresh child process that has parsed nothing else.

Part B (E3, threads): two real threads under the baton scheduler, every
schedule with <= b pre-emptions at line granularity (opcode granularity in the
thorough tier), both orders; each result must equal the sequential reference
and the tables must be unchanged.
"""

import hashlib
import io
import itertools
import multiprocessing as mp
import pickle
import subprocess
import sys

from mc import core, corpus, pinned, sched
from mc import refmodel as R
from mc.explore import ReplayDivergence, explore

LEVEL = "model_checking"
RULE = (
    "Part A: history = sequence of parse operations on the shared library state; state = "
    "(pickle snapshot of all module-level containers of pyrtcm.*); transitions = real parse "
    "calls; all ordered pairs over the corpus and all depth-3 histories over the conflict set; "
    "each observation compared with a reference from a child process that parsed only that item. "
    "Part B: execution = one complete two-thread schedule (baton scheduler over line / bytecode "
    "events in pyrtcm frames) with <= b pre-emptions, all of them enumerated; non-trivial = "
    "history of >= 2 operations or a schedule with >= 1 pre-emption"
)
KINDS = ("msg1", "msg2", "parse", "reader")
# operations whose observation must equal the reference of ANOTHER kind: the message a reader
# hands out after the same reader has reported an error is the message the static parser gives
EQUIV = {"reader-after-error": "parse", "reader-after-filler": "parse", "reader-rebound": "parse",
         "reader-after-collision": "parse"}


def snapshot():
    out = {}
    for mname, mod in sorted(sys.modules.items()):
        if mname == "pyrtcm" or mname.startswith("pyrtcm."):
            for k, v in sorted(vars(mod).items()):
                if k.startswith("_"):
                    continue  # private module state (e.g. a cache) is not a definition/lookup table
                if isinstance(v, (dict, list, set, tuple, str, int, float, bytes, bytearray,
                                  frozenset, type(None))):
                    out[(mname, k)] = v
    return hashlib.blake2b(pickle.dumps(out, protocol=4), digest_size=12).hexdigest()


def observe(payload, kind):
    """One parse operation -> hashable observation."""
    from pyrtcm import RTCMMessage, RTCMReader  # pylint: disable=import-outside-toplevel

    try:
        if kind == "msg1":
            msg = RTCMMessage(payload=payload, labelmsm=1)
        elif kind == "msg2":
            msg = RTCMMessage(payload=payload, labelmsm=2)
        elif kind == "parse":
            msg = RTCMReader.parse(pinned.frame(payload))
        elif kind == "serialize":
            # construct and frame: the observation is the frame itself (and its checksum round trip)
            msg = RTCMMessage(payload=payload)
            frame = bytes(msg.serialize())
            back = RTCMReader.parse(frame)
            return ("ser", frame, bytes(back.payload), bytes(msg.serialize()))
        elif kind == "reader-after-filler":
            # the same reader has first met legal frames that carry no message (zero-length
            # filler, one-byte payload) and foreign traffic
            frame = pinned.frame(payload)
            pre = pinned.frame(b"") + b"$GNGGA,1*00\r\n" + pinned.frame(b"\x3e") + b"\x00\xff"
            rdr = RTCMReader(io.BytesIO(pre + frame), quitonerror=0)
            _raw, msg = rdr.read()
            if msg is None and _raw is not None:
                return ("exc", "RawWithoutMessage", 0)
            if msg is None:
                # the frame itself does not parse: the static parser's own error is the reference
                msg = RTCMReader.parse(frame)
        elif kind == "reader-after-error":
            from mc.readerharness import lib_exceptions  # pylint: disable=import-outside-toplevel

            frame = pinned.frame(payload)
            bad = frame[:-1] + bytes([frame[-1] ^ 0x01])
            rdr = RTCMReader(io.BytesIO(bad + frame), quitonerror=2)
            it = iter(rdr)  # the caller keeps ONE iterator object across the exception
            try:
                next(it)  # the damaged copy: raises in this mode; the caller carries on
            except lib_exceptions():
                pass
            try:
                _raw, msg = next(it)
            except StopIteration:
                return ("exc", "NoMessage", 0)
            if msg is None:
                return ("exc", "NoMessage", 0)
        elif kind == "reader-after-collision":
            # the same reader has just read ANOTHER valid frame of the same length that carries the
            # same CRC trailer (a multiple of the generator XOR-ed into the last payload bytes)
            frame = pinned.frame(payload)
            if len(payload) < 6:
                msg = RTCMReader.parse(frame)
            else:
                twin = payload[:-4] + (int.from_bytes(payload[-4:], "big") ^ 0x1864CFB).to_bytes(4, "big")
                tframe = pinned.frame(twin)
                core.require(tframe[-3:] == frame[-3:] and tframe != frame, "collision twin")
                rdr = RTCMReader(io.BytesIO(tframe + frame), quitonerror=0)
                rdr.read()
                _raw, msg = rdr.read()
                if msg is None:
                    msg = RTCMReader.parse(frame)
        elif kind == "reader-rebound":
            # two readers, one after the other, over the SAME stream object (the first is dropped)
            frame = pinned.frame(payload)
            stream = io.BytesIO(frame + frame)
            first = RTCMReader(stream, quitonerror=0)
            first.read()
            del first
            _raw, msg = RTCMReader(stream, quitonerror=0).read()
            if msg is None:
                msg = RTCMReader.parse(frame)
        else:
            errs = []
            # a mixed stream: NMEA sentence, frame, UBX frame, frame (the reader's protocol
            # look-up tables are consulted as well as the message tables)
            fr = pinned.frame(payload)
            mixed = (b"$GNGGA,1*00\r\n" + fr + b"\xb5\x62\x01\x02\x02\x00\x07\x09\x15\x4a" + fr
                     + b"$PUBX,00*33\r\n")
            rdr = RTCMReader(io.BytesIO(mixed), quitonerror=1, errorhandler=errs.append)
            got = [(bytes(r), repr(R.public_attrs(m))) for r, m in rdr]
            return ("reader", core.h64(repr((got, [type(e).__name__ for e in errs]))))
        return ("ok", core.h64(repr((msg.identity, R.public_attrs(msg), str(msg)))))
    except Exception as err:  # pylint: disable=broad-except
        return ("exc", type(err).__name__, core.h64(str(err)))


def capacity_items():
    out = []

    def add(ident, shape, mode="fp"):
        try:
            payload, _o, _n = R.build(ident, shape, mode)
        except (R.BadDefinition, R.TooLong):
            return
        out.append({"name": f"{ident}#{len(out)}", "payload": payload})

    for k in range(300):  # distinct (constellation, level, satellite, signal, cell) combinations
        num = pinned.MSM_NUMBERS[(k * 5) % len(pinned.MSM_NUMBERS)]
        sat = (1 << 63) | (1 << (k % 61)) | (1 << ((k * 7) % 59))
        sig = (1 << 30) | (1 << ((k * 3) % 29))
        ncell = bin(sat).count("1") * bin(sig).count("1")
        add(str(num), {"DF394": sat, "DF395": sig, "DF396": ((1 << ncell) - 1) ^ (k % (1 << ncell) >> 1)})
    for k in range(200):
        add("1005", {}, "fp")
        out[-1]["payload"] = out[-1]["payload"][:2] + bytes([k & 0xFF, (k * 37) & 0xFF]) + out[-1]["payload"][4:]
    for k in range(1, 120):
        add("1029", {"DF139": k, "DF138": min(k, 127)})
    for d in range(16):
        for o in range(d + 1):
            add("4076_201", {"IDF035": 0, "IDF037": d, "IDF038": o})
    for a in range(1, 9):
        for b in range(0, 6):
            add("1059", {"DF387": a, "DF379": b})
            add("4076_025", {"IDF010": a, "IDF023": b})
    return out


def _ref_one(args):
    payload, kind = args
    return observe(payload, kind), snapshot()


def references(items):
    """Reference observation of every (item, kind) in a child that parsed nothing else."""
    tasks = [(it["payload"], k) for it in items for k in KINDS]
    ctx = mp.get_context("fork")
    with ctx.Pool(core.NPROC, maxtasksperchild=1) as pool:
        res = pool.map(_ref_one, tasks, chunksize=1)
    ref = {}
    for (payload, kind), (obs, snap) in zip(tasks, res):
        ref[(payload, kind)] = obs
    return ref, {s for _o, s in res}


def fresh_snapshot():
    """Snapshot computed by a brand-new interpreter (guards the fork-based references)."""
    code = ("import sys; sys.path.insert(0, %r); sys.path.insert(0, %r); from mc import core; "
            "core.bootstrap(); from checks import c13; print(c13.snapshot())" % (core.SRC, core.VERIF))
    r = subprocess.run([sys.executable, "-c", code], capture_output=True, text=True, check=True,
                       env={"PYTHONHASHSEED": "0", "PYTHONDONTWRITEBYTECODE": "1",
                            "PATH": "/usr/bin:/bin", "PYRTCM_SRC": core.SRC})
    return r.stdout.strip()


_REF = {}
_SNAP0 = None


@core.guard
def judge(case):
    out = core.Outcome()
    if case["kind"] == "threads":
        return judge_threads(case)
    if case["kind"] == "threads-cold":
        return judge_threads_cold(case)
    snap0 = snapshot()
    hist = case["history"]  # list of (payload, kind)
    for i, (payload, kind) in enumerate(hist):
        obs = observe(payload, kind)
        rkind = EQUIV.get(kind, kind)
        want = _REF.get((payload, rkind))
        if want is None:
            # replay from a file / a case outside the enumeration: take the reference now, in a child
            want = references([{"payload": payload}])[0][(payload, rkind)]
            _REF[(payload, rkind)] = want
        if obs != want:
            sig = "result-depends-on-history"
            if obs[0] == "exc" and want[0] != "exc":
                sig += ":fails-after-history"
            elif want[0] == "exc" and obs[0] != "exc":
                sig += ":succeeds-after-history"
            out.bad(sig, f"operation {i} ({kind} of {pinned.ref_identity(payload)} payload, "
                    f"{len(payload)} B) after history {[(pinned.ref_identity(p), k) for p, k in hist[:i]]}: "
                    f"observation {obs[:2]} differs from the fresh-process reference {want[:2]}")
            break
        if case.get("snap_each") and snapshot() != snap0:
            out.bad("tables-modified", f"library tables changed by operation {i} ({kind} of "
                    f"{pinned.ref_identity(payload)})")
            break
    if snapshot() != snap0:
        out.bad("tables-modified", f"library tables changed by history "
                f"{[(pinned.ref_identity(p), k) for p, k in hist]}")
    out.transitions = len(hist)
    out.nontrivial = len(hist) >= 2
    out.obs = core.h64(repr([(core.h64(p), k) for p, k in hist]))
    return out


# ---------------------------------------------------------------------------
# threads
# ---------------------------------------------------------------------------
def _obs(p, lm=1):
    """A thread operand is a payload (parsed directly) or a (kind, payload) pair."""
    if isinstance(p, (tuple, list)):
        return observe(bytes(p[1]), p[0])
    return observe(p, "msg1" if lm == 1 else "msg2")


def _mk_body(payload, lm=1):
    def body():
        return _obs(payload, lm)

    return body


def judge_threads(case):
    from mc.explore import Chooser  # pylint: disable=import-outside-toplevel

    out = core.Outcome()
    pa, pb = case["payloads"]
    ref = (_obs(pa), _obs(pb))
    snap0 = snapshot()
    ch = Chooser(case["choices"])
    res, steps, pre = sched.execute([_mk_body(pa), _mk_body(pb)], ch, case.get("gran", "line"))
    _thread_oracle(res, ref, pre, out, case.get("name", ""))
    if snapshot() != snap0:
        out.bad("tables-modified", "library tables changed by a concurrent parse")
    return out


def judge_threads_cold(case):
    """Replay one cold schedule (fork, threads, sequential parses) against child references."""
    out = core.Outcome()
    pa, pb = case["payloads"]
    post = case["post"]
    ref, _snaps = references([{"payload": _opk(p)[0]} for p in [pa, pb] + post])
    res, _steps, pre, _n, after = sched.execute_cold(
        lambda: [_mk_body(pa), _mk_body(pb)], case["choices"], case.get("gran", "line"),
        post=lambda: [_obs(p) for p in [pa, pb] + post])
    _thread_oracle(res, (ref[_opk(pa)], ref[_opk(pb)]), pre, out, case.get("name", ""))
    want = [ref[_opk(p)] for p in [pa, pb] + post]
    if list(after) != want:
        out.bad("result-depends-on-history:after-concurrent-parses",
                f"{case.get('name')}: sequential parses after the cold schedule differ from references")
    return out


def _thread_oracle(res, ref, pre, out, name):
    for tid in (0, 1):
        if res[tid] != ("ok", ref[tid]):
            out.bad("result-depends-on-schedule",
                    f"{name}: thread {tid} result {str(res[tid])[:120]} differs from the sequential "
                    f"reference {str(ref[tid])[:80]} under pre-emptions at global steps {list(pre)}")
            break


def explore_threads(item):
    name, pa, pb, gran, bound, roots = item
    st = core.Stats()
    _obs(pa), _obs(pb)  # warm-up: lazily built private state, if any
    ref = (_obs(pa), _obs(pb))
    snap0 = snapshot()
    steps_seen = set()

    def body(ch):
        return sched.execute([_mk_body(pa), _mk_body(pb)], ch, gran)

    if isinstance(roots, dict):
        # residue class of first pre-emption positions, measured in THIS process after warm-up
        n0 = _steps2(pa, pb, gran)
        roots = [(0,) * s + (1,) for s in range(roots["part"], n0, roots["parts"])]

    for root in roots:
        it = explore(body, bound=bound, root=root)
        while True:
            try:
                choices, devs, (res, steps, pre) = next(it)
            except StopIteration:
                break
            except ReplayDivergence as err:
                # a schedule that exists on a clean library no longer exists: either earlier
                # executions changed later behaviour (a C13 violation) or the harness is broken
                now = (_obs(pa), _obs(pb))
                want = (_REF.get((pa, "msg1"), ref[0]) if isinstance(pa, bytes) else ref[0],
                        _REF.get((pb, "msg1"), ref[1]) if isinstance(pb, bytes) else ref[1])
                if now != want or now != ref:
                    out = core.Outcome()
                    out.bad("result-depends-on-history:after-concurrent-parses",
                            f"{name}: after earlier two-thread executions a sequential parse gives "
                            f"{str(now)[:100]} instead of {str(want)[:100]}")
                    st.add({"kind": "hist", "history": [(pa, "msg1") if isinstance(pa, bytes) else (pa[1], pa[0]),
                                                        (pb, "msg1") if isinstance(pb, bytes) else (pb[1], pb[0])]}, out)
                    break
                raise core.Broken(f"{name}: {err}") from err
            out = core.Outcome()
            _thread_oracle(res, ref, pre, out, name)
            out.nontrivial = devs >= 1
            out.transitions = sum(steps)
            out.obs = core.h64(repr((name, gran, pre)))
            steps_seen.add(steps)
            k = f"schedules_{gran}_{devs}_preemptions"
            out.extra[k] = 1
            st.add({"kind": "threads", "name": name, "payloads": [pa, pb], "gran": gran,
                    "choices": _compress(choices)}, out,
                   keep_sample=(devs == bound and len(st.samples) < 1))
    if snapshot() != snap0:
        out = core.Outcome()
        out.bad("tables-modified", f"{name}: library tables changed by concurrent parses")
        st.add({"kind": "threads", "name": name, "payloads": [pa, pb], "gran": gran, "choices": []}, out)
    # step counts may legitimately differ between schedules (e.g. a private one-slot cache that
    # hits or misses depending on the interleaving); results, not step counts, are the oracle
    st.extra["distinct_step_profiles"] = len(steps_seen)
    st.extra["steps_per_thread"] = {f"{name}/{gran}": sum(next(iter(steps_seen)))} if steps_seen else {}
    return st


def cold_pairs():
    def b(ident, shape=None, mode="fp"):
        return R.build(ident, shape or {}, mode)[0]

    return [
        ("cold 1007(3)|1007(5) then 1007(8)", b("1007", {"DF029": 3}), b("1007", {"DF029": 5}),
         [b("1007", {"DF029": 8})]),
        ("cold 1059|1065 then 1059(3x3)", b("1059", {"DF387": 2, "DF379_01": 1, "DF379_02": 2}),
         b("1065", {"DF387": 1, "DF379_01": 2}),
         [b("1059", {"DF387": 3, "DF379_01": 3, "DF379_02": 3, "DF379_03": 3})]),
        ("cold 1071|1121 then 1077", b("1071", {"DF394": (1 << 63) | (1 << 60), "DF395": 1 << 30, "DF396": 3}),
         b("1121", {"DF394": 1 << 40, "DF395": (1 << 29) | (1 << 9), "DF396": 1}),
         [b("1077", {"DF394": 7 << 50, "DF395": 3 << 20, "DF396": 0b111111})]),
        ("cold 1005|1006 then 1033", b("1005"), b("1006"),
         [b("1033", {"DF029": 4, "DF032": 3, "DF227": 2, "DF229": 1, "DF231": 5})]),
        # two READERS over mixed streams (NMEA / UBX / RTCM): the protocol look-up tables are shared too
        ("cold reader(1005)|reader(1006) then 1005", ("reader", b("1005")), ("reader", b("1006")),
         [b("1005"), ("reader", b("1005"))]),
    ]


def cold_operands():
    out = []
    for _n, pa, pb, post in cold_pairs():
        out += [pa, pb] + post
    return out


def _opk(p):
    """(payload, kind) of a thread operand."""
    return (p, "msg1") if isinstance(p, bytes) else (bytes(p[1]), p[0])


def cold_payloads():
    return [_opk(p)[0] for p in cold_operands()]


def explore_threads_cold(item):
    """
    As explore_threads, but every schedule runs in a freshly forked child of this (cold)
    process and is followed there by sequential parses: lazily initialised or lazily grown
    library state is cold at the start of every schedule.
    """
    from mc.explore import Chooser  # pylint: disable=import-outside-toplevel

    name, pa, pb, post, gran, bound, refs, part, parts = item
    st = core.Stats()
    steps_seen = set()

    def body(ch):
        res, steps, pre, npoints, after = sched.execute_cold(
            lambda: [_mk_body(pa), _mk_body(pb)], ch.prefix, gran,
            post=lambda: [_obs(p) for p in [pa, pb] + post] + [snapshot()])
        ch.trace = [(2, ch.prefix[i] if i < len(ch.prefix) else 0, "pt") for i in range(npoints)]
        return res, steps, pre, after

    def rk(p):
        return p if isinstance(p, bytes) else (p[0], bytes(p[1]))

    ref = (refs[rk(pa)], refs[rk(pb)])
    want_after = [refs[rk(p)] for p in [pa, pb] + post]
    # this part explores the schedules whose FIRST pre-emption position is in its residue class
    # (part 0 also runs the schedule without pre-emption)
    n0 = body(Chooser(()))[1][0]
    roots = [(0,) * s + (1,) for s in range(part, n0, parts)]
    if part == 0:
        roots.insert(0, None)
    runs = []
    for root in roots:
        if root is None:
            runs.append(next(iter(explore(body, bound=0))))
        else:
            runs.extend(explore(body, bound=bound, root=root))
    for choices, devs, (res, steps, pre, after) in runs:
        out = core.Outcome()
        _thread_oracle(res, ref, pre, out, name)
        if after[:-1] != want_after:
            k = next(i for i, (x, y) in enumerate(zip(after, want_after)) if x != y)
            out.bad("result-depends-on-history:after-concurrent-parses",
                    f"{name}: after a cold two-thread execution with pre-emptions at {list(pre)} the "
                    f"sequential parse #{k} gives {str(after[k])[:80]} instead of {str(want_after[k])[:80]}")
        if after[-1] != refs["snapshot"]:
            out.bad("tables-modified", f"{name}: tables changed by a cold concurrent execution")
        out.nontrivial = devs >= 1
        out.transitions = sum(steps)
        out.obs = core.h64(repr((name, gran, pre)))
        out.extra[f"cold_schedules_{gran}_{devs}_preemptions"] = 1
        steps_seen.add(steps)
        st.add({"kind": "threads-cold", "name": name, "payloads": [pa, pb], "post": post,
                "gran": gran, "choices": list(choices)}, out,
               keep_sample=(devs == bound and len(st.samples) < 1))
    # step counts may legitimately differ between cold schedules (lazy initialisation is done by
    # whichever thread comes first), so they are recorded but not compared
    st.extra["cold_distinct_step_profiles"] = len(steps_seen)
    return st


def _compress(choices):
    return list(choices)


def thread_pairs(tier):
    def b(ident, shape=None, mode="fp"):
        return R.build(ident, shape or {}, mode)[0]

    m1 = b("1071", {"DF394": (1 << 63) | (1 << 60), "DF395": 1 << 30, "DF396": 0b11})
    m2 = b("1121", {"DF394": 1 << 40, "DF395": (1 << 29) | (1 << 9), "DF396": 0b01})
    p1005, p1006 = b("1005"), b("1006")
    n1 = b("1059", {"DF387": 2, "DF379_01": 1, "DF379_02": 2})
    n2 = b("1065", {"DF387": 1, "DF379_01": 2})
    bad = p1006[:12]
    h1 = b("4076_201", {"IDF035": 0, "IDF037": 2, "IDF038": 1})
    h2 = b("4076_201", {"IDF035": 0, "IDF037": 4, "IDF038": 1})
    out = [
        ("1005|1006", p1005, p1006),
        ("4076_201(3,2)|4076_201(5,2)", h1, h2),
        ("1005|1005", p1005, p1005),
        ("trunc1006|1005", bad, p1005),
        ("1071|1121", m1, m2),
        ("1059|1065", n1, n2),
        # framing (serialize + checksum + parse back) of two short messages of different lengths
        ("ser(3B)|ser(5B)", ("serialize", b"\xfa\x00\x5a"), ("serialize", b"\xfa\x70\x01\x02\xd3")),
    ]
    if tier == "thorough":
        out += [("1230|4076_201", b("1230", {"DF422_1": 1, "DF422_3": 1}),
                 b("4076_201", {"IDF035": 1, "IDF037": 1, "IDF038": 1})),
                ("1029|1029'", b("1029", {"DF139": 3}), b("1029", {"DF139": 2}, "ones"))]
    return out


def plan_threads(tier):
    work = []
    for name, pa, pb in thread_pairs(tier):
        for order, (x, y) in (("ab", (pa, pb)), ("ba", (pb, pa))):
            nm = f"{name}/{order}"
            work.append((nm, x, y, "line", 1, [()]))
    if tier == "thorough":
        # two pre-emptions (line) for the smallest pairs, split by first pre-emption position
        for name, pa, pb in thread_pairs(tier)[:3]:
            for order, (x, y) in (("ab", (pa, pb)), ("ba", (pb, pa))):
                for part in range(48):
                    work.append((f"{name}/{order}", x, y, "line", 2, {"part": part, "parts": 48}))
        # one pre-emption at bytecode granularity
        for name, pa, pb in thread_pairs(tier)[:4]:
            for order, (x, y) in (("ab", (pa, pb)), ("ba", (pb, pa))):
                for part in range(16):
                    work.append((f"{name}/{order}", x, y, "opcode", 1, {"part": part, "parts": 16}))
    else:
        name, pa, pb = thread_pairs(tier)[0]
        for part in range(16):
            work.append((f"{name}/ab", pa, pb, "opcode", 1, {"part": part, "parts": 16}))
    return work


def _steps2(pa, pb, gran="line"):
    from mc.explore import Chooser  # pylint: disable=import-outside-toplevel

    _res, steps, _pre = sched.execute([_mk_body(pa), _mk_body(pb)], Chooser(()), gran)
    return steps[0]


# ---------------------------------------------------------------------------
def _work(item):
    if item[0] == "threads":
        return explore_threads(item[1])
    if item[0] == "threads-cold":
        return explore_threads_cold(item[1])
    st = core.Stats()
    _kind, cases_ = item
    snap0 = snapshot()
    for k, case in enumerate(cases_):
        st.add(case, judge(case), keep_sample=(k == 0 and len(st.samples) < 1))
    st.state_keys.add(snap0)
    st.state_keys.add(snapshot())
    return st


def _det_work(case):
    core.check_deterministic(judge, case)
    return core.Stats()


def run(tier, seed, t0):
    global _SNAP0  # pylint: disable=global-statement
    corp = corpus.build(tier, per_identity=1 if tier == "quick" else 3)
    _SNAP0 = snapshot()
    if fresh_snapshot() != _SNAP0:
        raise core.Broken("table snapshot of this process differs from a fresh interpreter's")
    ref, snaps = references(corp + [{"payload": p} for p in cold_payloads()])
    _REF.update(ref)
    st = core.Stats()
    if snaps != {_SNAP0}:
        o = core.Outcome()
        o.bad("tables-modified", "a single parse operation in a fresh process modifies the library tables")
        st.add({"kind": "hist", "history": []}, o)
    # conflict set: MSM with different masks, nested counters, 4076_201, text, failing, unknown
    want = ("1071", "1077", "1127", "1059", "1065", "4076_026", "4076_201", "1029", "1033", "1230",
            "1302", "1005", "1006", "1004", "1012")
    conflict = []
    for w in want:
        conflict += [it for it in corp if it["identity"] == w][:2]
    conflict += [it for it in corp if it["kind"] == "fail"][:5]
    conflict += [it for it in corp if it["kind"] == "unknown"][:3]
    conflict = conflict[:21]
    # maximal payloads (> 1000 bytes) of a text type, an MSM type and a nested type
    for ident, shape in (("1033", {"DF029": 255, "DF032": 255, "DF227": 255, "DF229": 245}),
                         ("1077", {"DF394": (1 << 64) - 1, "DF395": 1 << 30, "DF396": (1 << 64) - 1}),
                         ("1059", {"DF387": 20, "DF379": 15})):
        try:
            payload, _o, nb = R.build(ident, shape, "fp")
            conflict.append({"name": f"{ident}#max", "payload": payload, "identity": ident,
                             "shape": shape, "kind": "ok"})
        except (R.BadDefinition, R.TooLong):
            pass
    # same identity, same order / different degree (and vice versa) for the harmonic message; same
    # satellite and signal masks with different cell masks for MSM
    for ident, shape in (("4076_201", {"IDF035": 0, "IDF037": 2, "IDF038": 1}),
                         ("4076_201", {"IDF035": 0, "IDF037": 4, "IDF038": 1}),
                         ("4076_201", {"IDF035": 0, "IDF037": 4, "IDF038": 3}),
                         ("4076_201", {"IDF035": 1, "IDF037": 1, "IDF038": 1, "IDF037_02": 3, "IDF038_02": 1}),
                         ("1074", {"DF394": (1 << 63) | (1 << 60), "DF395": (1 << 30) | (1 << 22), "DF396": 0b1010}),
                         ("1074", {"DF394": (1 << 63) | (1 << 60), "DF395": (1 << 30) | (1 << 22), "DF396": 0b1111}),
                         ("1124", {"DF394": (1 << 63) | (1 << 60), "DF395": (1 << 30) | (1 << 22), "DF396": 0b1111})):
        try:
            payload, _o, nb = R.build(ident, shape, "fp")
            conflict.append({"name": f"{ident}#c{len(conflict)}", "payload": payload, "identity": ident,
                             "shape": shape, "kind": "ok"})
        except (R.BadDefinition, R.TooLong):
            pass
    fp = bytes((29 * i + 7) & 0xFF for i in range(40))
    for sub in (73, 201, 10, 138):
        if sub == 201:
            continue
        v, _ = pinned.header(4076, sub, 1)
        conflict.append({"name": f"unk4076_{sub:03d}", "payload": (v << 1).to_bytes(3, "big") + fp[:11],
                         "identity": f"4076_{sub:03d}", "shape": None, "kind": "unknown"})
    corp = corp + conflict[21:]
    # references for the items added above (computed in children that parse nothing else)
    ref2, snaps2 = references(conflict[21:])
    _REF.update(ref2)
    if snaps2 != {_SNAP0}:
        o = core.Outcome()
        o.bad("tables-modified", "a single parse operation in a fresh process modifies the library tables")
        st.add({"kind": "hist", "history": []}, o)
    cases_ = []
    for it in corp:
        for k in KINDS:
            cases_.append({"kind": "hist", "history": [(it["payload"], k)], "snap_each": True})
    for a, b in itertools.product(corp, repeat=2):
        cases_.append({"kind": "hist", "history": [(a["payload"], "msg1"), (b["payload"], "msg1")]})
    for it in corp:
        cases_.append({"kind": "hist", "history": [(it["payload"], "reader-after-error")], "snap_each": True})
        cases_.append({"kind": "hist", "history": [(it["payload"], "reader-after-filler")], "snap_each": True})
        cases_.append({"kind": "hist", "history": [(it["payload"], "reader-rebound")], "snap_each": True})
        cases_.append({"kind": "hist", "history": [(it["payload"], "reader-after-collision")], "snap_each": True})
    for a, b in itertools.product(conflict, repeat=2):
        for ka, kb in itertools.product(KINDS + ("reader-after-error",), repeat=2):
            if (ka, kb) != ("msg1", "msg1"):
                cases_.append({"kind": "hist", "snap_each": True,
                               "history": [(a["payload"], ka), (b["payload"], kb)]})
    tri = conflict if tier == "thorough" else conflict[:8] + conflict[21:28]
    for a, b, c in itertools.product(tri, repeat=3):
        cases_.append({"kind": "hist", "history": [(a["payload"], "msg1"), (b["payload"], "msg2"),
                                                   (c["payload"], "msg1")]})
    # capacity sweeps: ONE process parses several hundred DISTINCT payloads one after the other
    # (distinct MSM mask / label combinations, distinct text, counts, harmonic degrees) and then
    # all of them again in reverse: a bounded memo, however well keyed, meets its capacity
    sweep = capacity_items()
    ref3, _s3 = references(sweep)
    _REF.update(ref3)
    order = [(it["payload"], ("msg1", "msg2", "parse")[k % 3]) for k, it in enumerate(sweep)]
    cases_.append({"kind": "hist", "history": order + order[::-1]})
    cases_.append({"kind": "hist", "history": order[::2] + order[1::2] + order[::3]})
    # cold two-thread explorations first: this process has parsed nothing so far, each work item
    # gets a fresh fork of it (maxtasksperchild=1) and forks again for every schedule
    crefs = {(p if isinstance(p, bytes) else (p[0], bytes(p[1]))): _REF[_opk(p)] for p in cold_operands()}
    crefs["snapshot"] = _SNAP0
    cold = []
    for name, pa, pb, post in cold_pairs():
        for part in range(4):
            cold.append(("threads-cold", (name + "/ab", pa, pb, post, "line", 1, crefs, part, 4)))
            cold.append(("threads-cold", (name + "/ba", pb, pa, post, "line", 1, crefs, part, 4)))
    st.merge(core.pmap(_work, cold, maxtasksperchild=1))
    work = [("hist", ch) for ch in core.chunks(cases_, 600)]
    work = [("threads", w) for w in plan_threads(tier)] + work
    st.merge(core.pmap(_work, work))
    if not st.violations:
        # harness determinism, checked in a forked child so that this process stays cold; if the
        # library itself were history dependent the explorations above have already reported it
        core.pmap(_det_work, [cases_[len(cases_) // 2]], nproc=2)
    prefixes = set()
    for c in cases_:
        hk = tuple((core.h64(p), k) for p, k in c["history"])
        for i in range(1, len(hk) + 1):
            prefixes.add(hk[:i])
    st.states = len(prefixes) + 1  # nodes of the explored history tree (+ the initial state)
    st.extra["corpus_items"] = len(corp)
    st.extra["conflict_set"] = len(conflict)
    st.extra["history_cases"] = len(cases_)
    st.extra["distinct_table_snapshots_seen"] = len(st.state_keys)
    if len(st.state_keys) > 1:
        o = core.Outcome()
        o.bad("tables-modified", "more than one distinct table snapshot observed across workers")
        st.add({"kind": "hist", "history": []}, o)
    return core.finish(
        "C13", tier, seed, LEVEL, st, RULE, t0,
        assumptions=[
            "reference observations come from forked children of a parent that has imported pyrtcm "
            "but parsed nothing; the parent's table snapshot is compared with a brand-new interpreter",
            "threads: two threads, pre-emption points at line events (and bytecode instructions "
            "where stated) inside pyrtcm frames only; CPython may also switch inside C calls made "
            "from one line, which the bytecode-granularity pass approximates",
            "the free-running 'minimal switch interval' stress mentioned in the property text is "
            "sampling and is not used",
        ],
    )
