"""
C09 -- MSM masks map to the right satellites, signals and cells.

Space: 49 MSM identities x label option {1,2} x mask shapes: all satellite
masks of popcount <= 2 (per constellation), all signal masks of popcount <= 2
(per constellation) plus every single signal ID and the full mask on all 49,
all 2^(NSat*NSig) cell masks for NSat*NSig <= 6, popcount<=1 / full cell masks
for 8x8, 64x1, 2x32 and a 3x32 shape.
"""

from mc import core, msmref, pinned
from mc import refmodel as R

LEVEL = "exploration"
RULE = (
    "case = (MSM identity, satellite mask, signal mask, cell mask, label option) decoded by the "
    "real RTCMMessage from a reference-encoded payload; NSat/NSig/NCell, PRN_nn, CELLPRN_nn, "
    "CELLSIG_nn compared with a reference mask decoder over pinned RTCM 10403.3 tables; "
    "non-trivial = at least one satellite and one signal set; distinct by construction"
)


@core.guard
def judge(case):
    from pyrtcm import RTCMMessage  # pylint: disable=import-outside-toplevel

    out = core.Outcome()
    ident = case["id"]
    base = int(ident) // 10
    sat, sig, cell, lm = case["sat"], case["sig"], case["cell"], case["lm"]
    ref = msmref.decode_masks(base, sat, sig, cell)
    out.nontrivial = ref["nsat"] > 0 and ref["nsig"] > 0
    try:
        payload, _occs, _n = R.build(ident, {"DF394": sat, "DF395": sig, "DF396": cell}, "fp")
    except R.TooLong:
        out.nontrivial = False
        return out
    except R.BadDefinition as err:
        out.bad("definition-undecodable", f"{ident}: {err}")
        return out
    try:
        msg = RTCMMessage(payload=payload, labelmsm=lm)
    except Exception as err:  # pylint: disable=broad-except
        out.bad("decode-raises", f"{ident} sat={sat:#x} sig={sig:#x} cell={cell:#x} labelmsm={lm}: "
                f"{type(err).__name__}: {err}")
        return out
    tag = f"{ident} sat={sat:#018x} sig={sig:#010x} cell={cell:#x} labelmsm={lm}"
    for name, want in (("NSat", ref["nsat"]), ("NSig", ref["nsig"]), ("NCell", ref["ncell"])):
        got = getattr(msg, name, None)
        if got != want:
            out.bad(f"count-wrong:{name}", f"{tag}: {name}={got!r}, mask popcount {want}")
    for i, want in enumerate(ref["prn"], 1):
        got = getattr(msg, f"PRN_{i:02d}", None)
        if got != want:
            sid = ref["sats"][i - 1]
            sig_ = "prn-na-marker" if want == pinned.NA else "prn-wrong"
            out.bad(sig_, f"{tag}: PRN_{i:02d}={got!r}, satellite ID {sid} is {want!r}")
            break
    if hasattr(msg, f"PRN_{len(ref['prn']) + 1:02d}"):
        out.bad("prn-extra", f"{tag}: more PRN entries than satellites")
    for k, (wprn, sid, wcode) in enumerate(ref["cells"], 1):
        gprn = getattr(msg, f"CELLPRN_{k:02d}", None)
        gsig = getattr(msg, f"CELLSIG_{k:02d}", None)
        if gprn != wprn:
            out.bad("cellprn-wrong", f"{tag}: CELLPRN_{k:02d}={gprn!r}, expected {wprn!r}")
            break
        if lm == 2:
            if wcode == pinned.NA:
                if gsig != pinned.NA:
                    out.bad("cellsig-na-marker", f"{tag}: CELLSIG_{k:02d}={gsig!r} for reserved "
                            f"signal ID {sid}; must be the not-available marker {pinned.NA!r}")
                    break
            elif not isinstance(gsig, str) or not gsig or gsig == pinned.NA:
                out.bad("cellsig-band-missing", f"{tag}: CELLSIG_{k:02d}={gsig!r} for defined signal {sid}")
                break
            elif gsig == wcode:
                out.bad("cellsig-band-is-rinex-code", f"{tag}: CELLSIG_{k:02d}={gsig!r} under the band "
                        f"option is the RINEX code of signal {sid}")
                break
        elif gsig != wcode:
            out.bad("cellsig-na-marker" if wcode == pinned.NA else "cellsig-wrong",
                    f"{tag}: CELLSIG_{k:02d}={gsig!r}, signal ID {sid} is {wcode!r} in RTCM 10403.3")
            break
    if hasattr(msg, f"CELLPRN_{len(ref['cells']) + 1:02d}"):
        out.bad("cell-extra", f"{tag}: more cell entries than set cell-mask bits")
    out.obs = core.h64(repr((ident, sat, sig, cell, lm)))
    return out


def cases(tier):
    out = []
    ids = [str(n) for n in pinned.MSM_NUMBERS]
    one_sig = 1 << 30  # signal ID 2

    seen = set()

    def add(ident, sat, sig, cell):
        if (ident, sat, sig, cell) in seen:
            return
        seen.add((ident, sat, sig, cell))
        for lm in (1, 2):
            out.append({"id": ident, "sat": sat, "sig": sig, "cell": cell, "lm": lm})

    def full(sat, sig):
        n = R.popcount(sat) * R.popcount(sig)
        return (1 << n) - 1

    # per constellation: all satellite masks popcount <= 2; all signal masks popcount <= 2
    for base in pinned.MSM_BASES:
        for level in ((7,) if tier == "quick" else (1, 4, 7)):
            ident = str(base * 10 + level)
            for sat in msmref.masks_popcount_le(64, 2):
                add(ident, sat, one_sig, full(sat, one_sig))
            for sig in msmref.masks_popcount_le(32, 2):
                sat = (1 << 63) | (1 << 40)
                add(ident, sat, sig, full(sat, sig))
    # all 49: special satellite masks, every single signal ID, full signal mask
    sat_special = [0, 1 << 63, 1, 3, msmref.first_n(64, 3), (1 << 64) - 1]
    for ident in ids:
        for sat in sat_special:
            add(ident, sat, one_sig, full(sat, one_sig))
        for g in range(32):
            sig = 1 << (31 - g)
            add(ident, 1 << 63, sig, 1)
        add(ident, 1 << 62, (1 << 32) - 1, (1 << 32) - 1)
        # all cell masks for NSat*NSig <= 6
        for ns, ng in ((1, 1), (1, 2), (2, 1), (1, 3), (3, 1), (2, 2), (2, 3), (3, 2), (6, 1), (1, 6)):
            sat = msmref.first_n(64, ns, 4)
            sig = msmref.first_n(32, ng, 1)
            for cell in range(1 << (ns * ng)):
                add(ident, sat, sig, cell)
        # cell-mask widths of every residue modulo 8 (the mask starts at payload bit 169: width 7, 15,
        # 23 ... makes it END on an octet boundary): full, empty, alternating, every single cell
        for ns, ng in ((7, 1), (1, 7), (4, 2), (3, 3), (5, 2), (11, 1), (4, 3), (13, 1), (7, 2), (5, 3), (3, 5),
                       (23, 1), (31, 1), (13, 3), (47, 1), (11, 5), (9, 7), (21, 3)):
            sat = msmref.first_n(64, ns, 2)
            sig = msmref.first_n(32, ng, 1)
            n = ns * ng
            for cell in [(1 << n) - 1, 0, int("10" * n, 2) & ((1 << n) - 1), int("01" * n, 2) & ((1 << n) - 1)] + \
                    ([1 << b for b in range(n)] if n <= 24 or ident.endswith("7") else [1, 1 << (n - 1)]):
                add(ident, sat, sig, cell)
        # big shapes: popcount <= 1 and full cell masks
        for ns, ng in ((8, 8), (64, 1), (2, 32)) + (((3, 32),) if tier == "thorough" else ()):
            sat = msmref.first_n(64, ns, 0)
            sig = msmref.first_n(32, ng, 0)
            n = ns * ng
            add(ident, sat, sig, (1 << n) - 1)
            add(ident, sat, sig, 0)
            step = 1 if tier == "thorough" else 9
            for b in range(0, n, step):
                add(ident, sat, sig, 1 << b)
    return out


def _work(chunk):
    return core.run_cases(judge, chunk, sample_every=5003)


def run(tier, seed, t0):
    allc = cases(tier)
    core.check_deterministic(judge, allc[len(allc) // 2])
    st = core.pmap(_work, core.chunks(allc, 800))
    # single-process history sweep, mask-major: the same mask triple is decoded under all 49
    # identities (constellations interleaved) and both label options back to back, so that
    # decoded maps cached under a key that omits the constellation / level / option collide
    ids = [str(n) for n in pinned.MSM_NUMBERS]
    triples = [(1 << 63, 1 << 30, 1), (7 << 61, 1 << 30, 0b101), ((1 << 63) | 1, (1 << 30) | (1 << 9), 0b0110),
               (1 << 61, 0b11 << 22, 0b01), (0x8040201008040201, 0x80008001, 0xA5A5A5A5)]
    order = [(i, t) for t in triples for i in ids] + [(i, t) for t in triples for i in reversed(ids)]
    # mask triples whose RENDERINGS run together to the same text when written one after the other
    # without padding or separators (hex and decimal): a digit moved from the tail of the
    # satellite mask to the head of the signal mask, equal cell-mask values
    def moved(sat, sig, base):
        d = sat % base
        width = 1
        while base ** width <= sig:
            width += 1
        return sat // base, d * base ** width + sig

    for sat, sig, cell in ((0x20004000000AB, 0x40404, 0x15A3C7), (0x8000000000000012, 0x0404, 0b1011),
                           (0x123456789, 0x2002, 0x3F), ((1 << 63) | 0x37, 0x10010, 0x1FF)):
        for base in (16, 10):
            s2, g2 = moved(sat, sig, base)
            if 0 < s2 < 1 << 64 and 0 < g2 < 1 << 32:
                for ident in ("1074", "1124", "1097"):
                    order += [(ident, (sat, sig, cell)), (ident, (s2, g2, cell)), (ident, (sat, sig, cell))]
    nseq = 0
    for lm_order in ((1, 2), (2, 1)):
        for ident, (sat, sig, cell) in order:
            for lm in lm_order:
                case = {"id": ident, "sat": sat, "sig": sig, "cell": cell, "lm": lm}
                out = judge(case)
                if out.violations:
                    st.add(case, out)
                nseq += 1
    st.extra["single_process_history_sweep_cases"] = nseq
    # the same decoding under other interpreter configurations (-O, -OO, -W error, -X dev)
    core.interpreter_modes("C09", allc[:: max(1, len(allc) // 400)], st)
    st.extra["msm_identities"] = len(pinned.MSM_NUMBERS)
    return core.finish(
        "C09", tier, seed, LEVEL, st, RULE, t0,
        assumptions=[
            "RINEX codes and PRN numbering pinned from RTCM 10403.3 tables 3.5-91..108.3 "
            "(identical to RTKLIB's msm_sig_* tables)",
            "under the frequency-band option only the not-available marker for reserved IDs and a "
            "non-empty label for defined IDs are demanded (band spellings are not pinned)",
            "masks of popcount >= 3 are represented (first-3, 8x8, full) rather than enumerated",
        ],
    )
