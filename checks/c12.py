"""
C12 -- chunked transfer decoding is independent of segmentation.

Bodies: all chunk-size lists over {1,2,3,10,16,17} with <= 3 chunks, size lines
in lower / upper / zero-padded hex, with and without the terminating zero
chunk, chunk data containing CR, LF, CRLF, hex digits and "0\\r\\n" look-alikes;
gzip / zlib / raw-deflate compressed chunks.
Segmentation: ALL 2^(n-1) compositions of the encoded stream for short bodies,
explicit-state BFS (all segmentations x read sizes, to a fixed point) for every
body, bufsize in {1, 3, 4096}.
Oracle: bytes delivered == reference RFC 9112 chunk decoder (mc below) applied
to the unsegmented stream, with per-chunk zlib decompression.
"""

import itertools
import zlib

from checks import c11
from mc import core
from mc.doubles import FakeSock, NonTermination

LEVEL = "model_checking"
RULE = (
    "states = canonical (all SocketWrapper attributes incl. the carried partial chunk, socket "
    "cursor, bytes delivered) reached by BFS over real read(k)/drain calls under every recv() "
    "split of the encoded stream, to a fixed point, for every body; plus one execution per "
    "composition of the encoded stream (all 2^(n-1)) for bodies up to the length bound, drained "
    "through the real wrapper; non-trivial = at least one recv boundary falls inside a chunk "
    "(size line, data or terminating CRLF); distinct by construction"
)
ENC = {"chunked": 1, "gzip": 1 | 2, "compress": 1 | 4, "deflate": 1 | 8,
       # the flags "can be OR'd": the wrapper then undoes gzip, zlib and raw deflate in that order
       "gzip+deflate": 1 | 2 | 8, "compress+deflate": 1 | 4 | 8, "gzip+compress": 1 | 2 | 4,
       "gzip+compress+deflate": 15}
PATTERN = b"a\r\n0\r\n\r\nF3\rb\n1A\r\n0\r\nzz"


def ref_dechunk(wire: bytes, mode="chunked") -> bytes:
    """RFC 9112 section 7.1 chunked-body decoder (sizes in hex, chunk-ext ignored)."""
    out, pos = b"", 0
    while pos < len(wire):
        eol = wire.find(b"\r\n", pos)
        if eol < 0:
            break
        size = int(wire[pos:eol].split(b";")[0].strip(), 16)
        pos = eol + 2
        if size == 0:
            break
        data = wire[pos : pos + size]
        if len(data) < size or wire[pos + size : pos + size + 2] != b"\r\n":
            break  # incomplete last chunk: nothing more can be delivered
        for layer in mode.split("+"):
            if layer == "gzip":
                data = zlib.decompress(data, wbits=zlib.MAX_WBITS | 16)
            elif layer == "compress":
                data = zlib.decompress(data, wbits=zlib.MAX_WBITS)
            elif layer == "deflate":
                data = zlib.decompress(data, wbits=-zlib.MAX_WBITS)
        out += data
        pos += size + 2
    return out


def compress(data, mode):
    if "+" in mode:  # innermost layer = the one the receiver undoes last
        for layer in reversed(mode.split("+")):
            data = compress(data, layer)
        return data
    if mode == "gzip":
        co = zlib.compressobj(6, zlib.DEFLATED, zlib.MAX_WBITS | 16)
    elif mode == "compress":
        co = zlib.compressobj(6, zlib.DEFLATED, zlib.MAX_WBITS)
    else:
        co = zlib.compressobj(6, zlib.DEFLATED, -zlib.MAX_WBITS)
    return co.compress(data) + co.flush()


def encode(chunks, style="lower", terminator=True, mode="chunked"):
    wire = b""
    for c in chunks:
        body = c if mode == "chunked" else compress(c, mode)
        n = len(body)
        size = {"lower": f"{n:x}", "upper": f"{n:X}", "padded": f"{n:04x}", "padded9": f"{n:09x}",
                "padded17": f"{n:017X}"}[style].encode()
        wire += size + b"\r\n" + body + b"\r\n"
    if terminator:
        wire += b"0\r\n\r\n"
    return wire


def bodies(tier):
    sizes = [1, 2, 3, 10, 16, 17]
    out = []
    pat = PATTERN * 4
    k = 0
    for n in (1, 2, 3):
        for combo in itertools.product(sizes, repeat=n):
            if n == 3 and tier == "quick" and (sum(combo) > 22 or len(set(combo)) < 2):
                continue
            chunks, off = [], k % 7
            for sz in combo:
                chunks.append(pat[off : off + sz])
                off += sz
            k += 1
            for style in ("lower", "upper", "padded"):
                if style != "lower" and not any(s >= 10 for s in combo) and style == "upper":
                    continue
                for term in (True, False):
                    out.append({"name": f"{combo}/{style}/{'T' if term else 'noT'}", "chunks": chunks,
                                "style": style, "term": term, "mode": "chunked"})
    # chunk DATA that looks like chunk framing (a last-chunk marker, a size line, bare CR / LF) at
    # the end of a chunk, and a chunk larger than small receive buffers
    for chunks in ([b"0\r\n", b"abc"], [b"x0\r\n", b"y", b"z0\r\n"], [b"0\r\n\r\n", b"tail"], [b"a\r", b"\nb"],
                   [b"5\r\nhello", b"\r\n"], [b"\r\n", b"\r\n0\r\n", b"q"], [PATTERN * 2 + b"\r", b"end"]):
        for term in (True, False):
            out.append({"name": f"framing-like/{[len(c) for c in chunks]}/{'T' if term else 'noT'}",
                        "chunks": chunks, "style": "lower", "term": term, "mode": "chunked"})
    # size fields with many leading zeros (RFC 9112: 1*HEXDIG, any number of digits), and more
    # complete chunks in one receive than any plausible per-receive bound (300 and 700)
    for chunks in ([b"a"], [b"hello", b"\r\n"], [pat[:17], b"b", pat[3:13]]):
        for style in ("padded9", "padded17"):
            for term in (True, False):
                out.append({"name": f"{[len(c) for c in chunks]}/{style}/{'T' if term else 'noT'}",
                            "chunks": chunks, "style": style, "term": term, "mode": "chunked"})
    for count in (300, 700):
        many = [bytes([97 + i % 26]) * (1 + i % 2) for i in range(count)]
        out.append({"name": f"many-chunks/{count}", "chunks": many, "style": "lower", "term": True,
                    "mode": "chunked", "nobfs": True})
    # one large, repetitive body per compression (decoded size beyond 16 KiB, repeats reaching far back)
    big = b"".join(bytes((i * 7 + j) & 0xFF for j in range(300)) for i in range(3)) * 40
    for mode in ("gzip", "compress", "deflate"):
        out.append({"name": f"{mode}/big{len(big)}", "chunks": [big, b"tail"], "style": "lower", "term": True,
                    "mode": mode, "nobfs": True})
    for mode in ("gzip+deflate", "compress+deflate", "gzip+compress", "gzip+compress+deflate"):
        for chunks in ([b"hello world"], [b"abc", b"", b"\xd3\x00\x00"]):
            out.append({"name": f"{mode}/{[len(c) for c in chunks]}/T", "chunks": chunks, "style": "lower",
                        "term": True, "mode": mode})
    for mode in ("gzip", "compress", "deflate"):
        for chunks in ([b"hello world"], [b"ab", b"\r\n0\r\n\r\n"], [b"x" * 40, b"y", b"zz"],
                       [b"abc", b"", b"def"], [b"", b"tail"], [b"0", b"", b"", b"0\r\n"]):
            for term in (True, False):
                out.append({"name": f"{mode}/{[len(c) for c in chunks]}/{'T' if term else 'noT'}",
                            "chunks": chunks, "style": "lower", "term": term, "mode": mode})
        # every one-byte body and a few two-byte ones (the first bytes of the compressed stream
        # then take many different values)
        singles = [bytes([v]) for v in range(256)] + [b"  ", b"$0", b"$7", b"\xd3\x00", b"x\x9c", b"\x1f\x8b"]
        for k in range(0, len(singles), 3):
            out.append({"name": f"{mode}/bytes{k}", "chunks": singles[k : k + 3], "style": "lower",
                        "term": True, "mode": mode, "nobfs": True})
    return out


def drain(wire, script, encoding, bufsize):
    from pyrtcm.socketwrapper import SocketWrapper  # pylint: disable=import-outside-toplevel

    sock = FakeSock(wire, script=list(script))
    wrap = SocketWrapper(sock, encoding=encoding, bufsize=bufsize)
    got = bytearray()
    gulp, idle = 1, 0
    for _ in range(4 * len(wire) + 16 + 300000):
        # highly compressed bodies decode to tens of kilobytes: take them in large reads while
        # that much is buffered, and byte by byte otherwise (a read larger than what is left
        # returns nothing at the end of the stream)
        gulp = 1009 if wrap.in_waiting() >= 4096 else 1
        b = wrap.read(gulp)
        if not b:
            if sock.pos >= len(wire) and sock.closed_seen:
                break
            if sock.pos >= len(wire):
                idle += 1
                if idle > 4:  # a wrapper that has stopped polling the socket will not start again
                    break
                continue
            break
        idle = 0
        got += b
    return bytes(got)


def classify(wire, segs):
    """Where do the boundaries fall? -> set of {'size-line','data','crlf'}"""
    kinds = set()
    # map each byte offset to a region
    region, pos = {}, 0
    while pos < len(wire):
        eol = wire.find(b"\r\n", pos)
        if eol < 0:
            break
        for i in range(pos, eol + 2):
            region[i] = "size-line"
        size = int(wire[pos:eol], 16)
        pos = eol + 2
        for i in range(pos, pos + size):
            region[i] = "data"
        for i in range(pos + size, pos + size + 2):
            region[i] = "crlf"
        pos += size + 2
        if size == 0:
            break
    off = 0
    for s in segs[:-1]:
        off += s
        a, b = region.get(off - 1), region.get(off)
        if a == b or (a == "data" and b == "crlf") or (a == "crlf" and b == "crlf"):
            kinds.add(b or "end")
        if a == "data" and b == "crlf":
            kinds.add("before-crlf")
    return kinds


@core.guard
def judge(case):
    out = core.Outcome()
    if case["kind"] == "bfs":
        c11.judge_bfs_case(case, out)
        return out
    if case["kind"] == "instances":
        c11.judge_instances(case, out)
        return out
    wire = case["wire"]
    mode = case["mode"]
    expect = ref_dechunk(wire, mode)
    try:
        got = drain(wire, case["segs"], ENC[mode], case["bufsize"])
    except NonTermination as err:
        out.bad("nontermination", f"{case['name']}: {err}")
        return out
    except Exception as err:  # pylint: disable=broad-except
        out.bad("wrapper-raises", f"{case['name']}: {type(err).__name__}: {err}")
        return out
    if got != expect:
        kinds = classify(wire, case["segs"]) if mode == "chunked" else set()
        where = ("boundary-at-chunk-crlf" if kinds & {"crlf", "before-crlf"} and not
                 kinds & {"size-line"} else "boundary-in-size-line" if "size-line" in kinds
                 else "other")
        sig = "chunked-data-lost" if len(got) < len(expect) else "chunked-data-wrong"
        out.bad(f"{sig}:{where}",
                f"{case['name']} bufsize={case['bufsize']} recv sizes {case['segs']}: delivered "
                f"{got!r} ({len(got)} B), reference decoder gives {expect!r} ({len(expect)} B); "
                f"wire {wire!r}")
    out.nontrivial = len(case["segs"]) > 1
    out.obs = core.h64(repr((wire, case["segs"], case["bufsize"])))
    return out


def _work(item):
    kind, payload = item
    if kind == "bfs":
        return c11.run_bfs(payload)
    st = core.Stats()
    body, lo, hi, bufsizes = payload
    wire = encode(body["chunks"], body["style"], body["term"], body["mode"])
    for k, segs in enumerate(itertools.islice(c11.compositions(len(wire)), lo, hi)):
        for bs in bufsizes:
            case = {"kind": "comp", "name": body["name"], "wire": wire, "segs": segs,
                    "bufsize": bs, "mode": body["mode"]}
            st.add(case, judge(case), keep_sample=(k == 3 and lo == 0))
    return st


def plan(tier):
    work = []
    comp_max = 15 if tier == "quick" else 20
    place_max = 44 if tier == "quick" else 10 ** 6
    nb = 2 if tier == "quick" else 3
    all_bodies = bodies(tier)
    # BFS representatives: spread over the body list (always incl. the compressed ones' first)
    reps = set(range(0, len(all_bodies), 3 if tier == "quick" else 1))
    reps |= {i for i, b in enumerate(all_bodies) if b["mode"] != "chunked" and not b.get("nobfs")}
    for idx, body in enumerate(all_bodies):
        wire = encode(body["chunks"], body["style"], body["term"], body["mode"])
        expect = ref_dechunk(wire, body["mode"])
        if body["mode"] == "chunked" and expect != b"".join(body["chunks"]):
            raise core.Broken(f"reference decoder disagrees with the generator on {body['name']}")
        if len(wire) <= comp_max:
            total = 1 << (len(wire) - 1)
            for lo in range(0, total, 8192):
                work.append(("comp", (body, lo, lo + 8192, (4096, 3))))
        elif len(wire) <= place_max:
            # (large compressed bodies: one boundary at every position; two would be ~200 000
            # placements of a 36 000-byte decode each)
            work.append(("place", (body, wire, nb if len(wire) <= 60 else 2 if len(wire) <= 200 else 1)))
        else:
            work.append(("place", (body, wire, 1)))
        if idx in reps and len(wire) <= (64 if tier == "quick" else 128):
            for bs in (1, 3, 4096):
                work.append(("bfs", {"name": f"{body['name']} bufsize={bs}", "source": wire,
                                     "expect": expect, "encoding": ENC[body["mode"]], "bufsize": bs,
                                     "ks": [1, 3] if tier == "quick" else [1, 2, 3, 7],
                                     "faults": 0 if tier == "quick" else 1, "lines": False}))
    return work


def _work_all(item):
    if item[0] == "place":
        body, wire, nb = item[1]
        st = core.Stats()
        for k, segs in enumerate(c11.placements(len(wire), nb)):
            for bs in (4096, 7):
                case = {"kind": "comp", "name": body["name"], "wire": wire, "segs": segs,
                        "bufsize": bs, "mode": body["mode"]}
                st.add(case, judge(case), keep_sample=(k == 1 and len(st.samples) < 1))
        return st
    return _work(item)


def run(tier, seed, t0):
    work = plan(tier)
    b0 = bodies(tier)[5]
    w0 = encode(b0["chunks"], b0["style"], b0["term"], b0["mode"])
    core.check_deterministic(judge, {"kind": "comp", "name": "det", "wire": w0,
                                     "segs": [2, 1, len(w0) - 3], "bufsize": 4096, "mode": "chunked"})
    inst_case = {"kind": "instances", "encoding": 1, "sources": [
        (encode([b"hello", b"abc"]), b"helloabc"), (encode([b"x" * 17], "upper", False), b"x" * 17),
        (encode([b"0\r\n", b"\r\n"]), b"0\r\n\r\n"), (encode([b"tail"]), b"tail")]}
    inst = core._in_child(lambda: c11.judge(inst_case).violations)  # pylint: disable=protected-access
    if inst:
        st = core.Stats()
        o = core.Outcome()
        o.violations = list(inst)
        st.add(inst_case, o)
        st.capped = True
        st.notes.append("exploration skipped: wrapper instances interfere with each other")
    else:
        st = core.pmap(_work_all, work)
    st.extra["bodies"] = len(bodies(tier))
    return core.finish(
        "C12", tier, seed, LEVEL, st, RULE, t0,
        assumptions=[
            "well-formed chunked bodies only (no chunk extensions, no trailers)",
            "all compositions are enumerated for encoded bodies up to the stated length; longer "
            "bodies are closed by the BFS (all segmentations reachable through bufsize-limited "
            "recv answers) or by all placements of <= 2 boundaries (compressed bodies)",
        ],
    )
