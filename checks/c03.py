"""
C03 -- every data field decodes to the value its bits encode.

Space: every defined identity x every shape of the shape alphabet x
valuations within a deviation bound (0: fingerprint / zeros / ones; 1: every
plain field occurrence x extreme-value alphabet; 2: adjacent pairs), plus a
flip of every bit of every plain field, padding bits and trailing bytes.
Oracle: public attributes == reference (name, value) list of mc.refmodel.
"""

import copy

from mc import core
from mc import refmodel as R
from mc import shapes as S

LEVEL = "exploration"
RULE = (
    "case = (identity, shape, valuation[, pad/trailing bytes]); shapes = full product of the "
    "counter/flag/mask menus per identity (mc/shapes.py), valuations = fingerprint/zeros/ones, "
    "then every plain field occurrence x {0,1,all-ones,MSB,0111..,1010..}, every single-bit "
    "flip of every plain field, adjacent pairs (thorough); every case is decoded by the real "
    "RTCMMessage and compared attribute-by-attribute with the reference decoder; non-trivial = "
    "the payload has at least one plain data field beyond the identity header; distinct = all "
    "enumerated cases differ by construction, distinct_outcomes counts distinct decoded "
    "attribute dictionaries"
)
SWEEP_LIMIT = 160  # plain occurrences swept completely; beyond: first/last 40 + every k-th


def valphabet(width, typ):
    if typ in ("CHA", "STR"):
        return [0x20, 0x41, 0x7E, 0xA9, 0xFF]
    if width <= 0:
        return []
    top = (1 << width) - 1
    vals = [0, 1, top, 1 << (width - 1), top >> 1, int("10" * width, 2) >> width & top]
    out = []
    for v in vals:
        v &= top
        if v not in out:
            out.append(v)
    return out


def _libexc():
    from pyrtcm import exceptions as E  # pylint: disable=import-outside-toplevel

    return (E.RTCMTypeError, E.RTCMMessageError, E.RTCMParseError, E.RTCMStreamError)


def compare(identity, occs, nbits, pad, extra, out, labelmsm=1):
    """Decode the packed occurrences with the real parser and compare. -> attrs or None"""
    from pyrtcm import RTCMMessage  # pylint: disable=import-outside-toplevel

    payload = R.encode(occs, nbits, pad, extra)
    try:
        msg = RTCMMessage(payload=payload, labelmsm=labelmsm)
    except Exception as err:  # pylint: disable=broad-except
        out.bad("decode-raises", f"{identity}: payload {payload.hex()[:80]}.. "
                f"({len(payload)} B) raises {type(err).__name__}: {err}")
        out.obs = ("raise", identity, type(err).__name__)
        return None
    got = [(k, v) for k, v in R.public_attrs(msg) if not R.is_excluded(k)]
    exp = R.expected(occs)
    gd = dict(got)
    ed = dict(exp)
    if len(gd) != len(got):
        out.bad("duplicate-attribute", f"{identity}: duplicate public attribute names")
    for name, ev in exp:
        if name not in gd:
            if isinstance(ev, str) and ev == "":
                continue  # zero text units: attribute may be absent
            typ = next((o.typ for o in occs if o.name == name or o.key == name), "?")
            out.bad(f"missing-attribute:{typ}", f"{identity}: attribute {name} (expected {ev!r}) "
                    f"absent; payload {payload.hex()[:80]}")
            break
        if not R.values_equal(gd[name], ev):
            o = next((o for o in occs if o.name == name or (o.typ == "STR" and o.key == name)))
            out.bad(f"value-mismatch:{o.typ}",
                    f"{identity}: {name} = {gd[name]!r}, reference {ev!r} (type {o.typ}, width "
                    f"{o.width}, res {o.res}, raw {o.raw:#x} at bit {o.off}); payload "
                    f"{payload.hex()[:120]}")
            break
    for name, gv in got:
        if name not in ed:
            out.bad("extra-attribute", f"{identity}: unexpected public attribute {name}={gv!r}; "
                    f"payload {payload.hex()[:80]}")
            break
    if not out.violations and [n for n, _ in got] != [n for n, _ in exp if n in gd]:
        pass  # order of attributes is not part of the property
    out.obs = core.h64(repr((identity, got)))
    return got


@core.guard
def judge(case):
    out = core.Outcome()
    identity = case["id"]
    try:
        occs, nbits = R.layout(
            identity, R.Valuation(case.get("shape"), case.get("mode", "fp"), case.get("sets"))
        )
    except R.BadDefinition as err:
        out.bad("definition-undecodable", f"{identity}: {err}")
        return out
    except R.TooLong:
        out.nontrivial = False
        return out
    if nbits > R.MAXBITS:
        out.nontrivial = False
        return out
    out.nontrivial = any(o.role == "plain" for o in occs)
    compare(identity, occs, nbits, case.get("pad", 0), case.get("extra", b""), out)
    return out


def _with(occs, changes):
    new = list(occs)
    for o_idx, raw in changes.items():
        o = copy.copy(occs[o_idx])
        o.raw = raw
        new[o_idx] = o
    return new


def sweep_positions(plain):
    if len(plain) <= SWEEP_LIMIT:
        return plain, True
    step = max(1, (len(plain) - 80) // 40)
    sel = plain[:40] + plain[40:-40:step] + plain[-40:]
    return sel, False


def explore_shape(identity, shape, tier, st, flips):
    """All valuations for one (identity, shape)."""
    base_case = {"id": identity, "shape": shape}
    try:
        occs, nbits = R.layout(identity, R.Valuation(shape, "fp"))
    except R.BadDefinition as err:
        out = core.Outcome()
        out.bad("definition-undecodable", f"{identity}: {err}")
        st.add(base_case, out)
        return
    except R.TooLong:
        return
    if nbits > R.MAXBITS:
        return
    plain = [i for i, o in enumerate(occs) if o.role == "plain"]
    nontriv = bool(plain)

    def run(case, occs_, pad=0, extra=b"", sample=False):
        out = core.Outcome()
        out.nontrivial = nontriv
        compare(identity, occs_, nbits, pad, extra, out)
        st.add(case, out, keep_sample=sample)
        return not out.violations

    # bound 0
    ok = True
    has_text = any(o.typ == "STR" for o in occs)
    for mode in ("fp", "zeros", "ones") + (("nul", "nulmix") if has_text else ()):
        o2, _ = R.layout(identity, R.Valuation(shape, mode))
        for pad, extra in ((0, b""), (1, b""), (0, b"\x00"), (0, b"\xff"), (1, b"\xff\x00" * 4 + b"\xff")):
            ok &= run({**base_case, "mode": mode, "pad": pad, "extra": extra}, o2, pad, extra,
                      sample=(mode == "fp" and pad == 0 and not extra and len(st.samples) < 2))
    if tier == "thorough":
        for extra in (b"\x00\x00", b"\xff\xff", b"\x00" * 9, b"\xff" * 9):
            run({**base_case, "mode": "fp", "extra": extra}, occs, 0, extra)
    if not ok:
        return  # the shape already fails; the sweeps would only repeat it
    if tier == "quick" and nbits > 2048:
        st.extra["shapes_bound0_only"] = st.extra.get("shapes_bound0_only", 0) + 1
        return  # large shapes: bound 0 only in the quick tier
    # single pad bits
    padn = (-nbits) % 8
    # bound 1
    sel, complete = sweep_positions(plain)
    if not complete:
        st.extra["shapes_with_sampled_positions"] = st.extra.get("shapes_with_sampled_positions", 0) + 1
    for i in sel:
        o = occs[i]
        for v in valphabet(o.width, o.typ):
            if v == o.raw:
                continue
            if not run({**base_case, "sets": {o.ordinal: v}}, _with(occs, {i: v})):
                break
    # bit flips
    if flips:
        for i in sel:
            o = occs[i]
            for b in range(o.width):
                v = o.raw ^ (1 << b)
                if o.typ in ("CHA", "STR") and v == 0:
                    continue
                if not run({**base_case, "sets": {o.ordinal: v}, "flip": b},
                           _with(occs, {i: v})):
                    break
        for b in range(padn):
            # one pad bit set: nothing may change
            payload_pad = 1 << b
            out = core.Outcome()
            out.nontrivial = nontriv
            _compare_padmask(identity, occs, nbits, payload_pad, out)
            st.add({**base_case, "padmask": payload_pad}, out)
    # bound 2: adjacent pairs
    if tier == "thorough" and len(plain) <= SWEEP_LIMIT:
        for a, b in zip(plain, plain[1:]):
            oa, ob = occs[a], occs[b]
            if oa.typ in ("CHA", "STR") or ob.typ in ("CHA", "STR"):
                continue
            ea = [0, (1 << oa.width) - 1, 1 << (oa.width - 1)]
            eb = [0, (1 << ob.width) - 1, 1 << (ob.width - 1)]
            for va in dict.fromkeys(ea):
                for vb in dict.fromkeys(eb):
                    run({**base_case, "sets": {oa.ordinal: va, ob.ordinal: vb}},
                        _with(occs, {a: va, b: vb}))


def _compare_padmask(identity, occs, nbits, padmask, out):
    from pyrtcm import RTCMMessage  # pylint: disable=import-outside-toplevel

    payload = bytearray(R.encode(occs, nbits, 0, b""))
    ref = RTCMMessage(payload=bytes(payload))
    payload[-1] |= padmask
    try:
        msg = RTCMMessage(payload=bytes(payload))
    except Exception as err:  # pylint: disable=broad-except
        out.bad("padding-bit-raises", f"{identity}: pad bit set -> {type(err).__name__}: {err}")
        return
    if R.public_attrs(msg) != R.public_attrs(ref):
        out.bad("padding-bit-changes-attributes", f"{identity}: padmask {padmask:#x} changes attributes")
    out.obs = core.h64(repr((identity, "pad", padmask)))


def _work(item):
    identity, shapes, tier, flipset = item
    st = core.Stats()
    for k, shape in shapes:
        explore_shape(identity, shape, tier, st, flips=(k in flipset))
    return st


def plan(tier):
    items = []
    bad = []
    for identity, _tbl in R.all_identities():
        try:
            shp = S.enumerate_shapes(identity, tier)
        except R.BadDefinition as err:
            bad.append((identity, str(err)))
            continue
        sizes = []
        for s in shp:
            try:
                _, nbits = R.layout(identity, R.Valuation(s, "zeros"))
            except (R.BadDefinition, R.TooLong):
                nbits = 0
            sizes.append(nbits)
        # flips: quick = smallest shape having a repeated group item; thorough = all <= 128 B + max
        flipset = set()
        if tier == "quick":
            cand = [k for k, s in enumerate(shp) if any(v for v in s.values())]
            if cand:
                flipset.add(min(cand, key=lambda k: sizes[k]))
            else:
                flipset.add(0)
        else:
            flipset = {k for k, n in enumerate(sizes) if n <= 128 * 8}
            if sizes:
                flipset.add(max(range(len(sizes)), key=lambda k: sizes[k]))
        indexed = list(enumerate(shp))
        for ch in core.chunks(indexed, 12 if tier == "quick" else 6):
            items.append((identity, ch, tier, flipset))
    return items, bad


def run(tier, seed, t0):
    items, bad = plan(tier)
    core.check_deterministic(judge, {"id": "1005", "shape": {}, "mode": "fp"})
    core.check_deterministic(judge, {"id": "1077", "shape": {"DF394": 3, "DF395": 5, "DF396": 9}})
    # biggest items first for load balance; merge order stays deterministic (pmap is ordered)
    st = core.pmap(_work, items)
    for identity, err in bad:
        out = core.Outcome()
        out.bad("definition-undecodable", f"{identity}: {err}")
        st.add({"id": identity}, out)
    st.extra["identities"] = len(R.all_identities())
    st.extra["work_items"] = len(items)
    return core.finish(
        "C03", tier, seed, LEVEL, st, RULE, t0,
        assumptions=[
            "correctness is relative to the tree's data-field table (type/width/resolution per "
            "DF); that table itself is pinned by C10",
            "field values come from the extreme-value alphabet plus fingerprints, not all 2^w",
            "NUL text units are outside the compared domain",
            "shapes with more than %d plain occurrences are swept at first/last 40 and every k-th "
            "position (reported as shapes_with_sampled_positions)" % SWEEP_LIMIT,
        ],
        exhaustive=True,
    )
