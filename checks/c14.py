"""
C14 -- parsed messages are immutable.

Space: every corpus message x every name in vars(msg) (public and private) plus
{payload, identity, ismsm, a fresh public and a fresh private name} x value in
{0, the current value, a string}; all ordered pairs of attempts on a subset.
Oracle: setattr raises RTCMMessageError and the full snapshot is unchanged.
"""

import itertools

from mc import core, corpus

LEVEL = "exploration"
RULE = (
    "case = (corpus message, sequence of one or two (name, value-kind) assignment attempts); "
    "names = all instance attribute names incl. private ones + properties + fresh names; every "
    "attempt is made with the builtin setattr on a freshly parsed message; non-trivial = always "
    "(each case makes at least one attempt); distinct = cases differ by construction"
)
FRESH = ["ZZ_new_public", "_zz_new_private", "payload", "identity", "ismsm", "DF002", "__class__x"]


def snapshot(msg):
    return (
        [(k, repr(v)) for k, v in vars(msg).items()],
        msg.payload,
        msg.identity,
        str(msg),
        msg.serialize(),
        repr(msg),
    )


def value_for(kind, msg, name):
    if kind == "zero":
        return 0
    if kind == "same":
        try:
            return getattr(msg, name)
        except AttributeError:
            return None
    if kind == "false":
        return False
    return "x"


def judge(case):
    from pyrtcm import RTCMMessage  # pylint: disable=import-outside-toplevel
    from pyrtcm.exceptions import RTCMMessageError  # pylint: disable=import-outside-toplevel

    out = core.Outcome()
    try:
        msg = RTCMMessage(payload=case["payload"])
    except Exception:  # pylint: disable=broad-except
        out.nontrivial = False
        return out
    before = snapshot(msg)
    for name, kind in case["attempts"]:
        val = value_for(kind, msg, name)
        try:
            setattr(msg, name, val)
            out.bad("assignment-accepted" + (":private" if name.startswith("_") else ""),
                    f"{case['name']}: setattr(msg, {name!r}, {val!r}) did not raise")
        except RTCMMessageError:
            pass
        except Exception as err:  # pylint: disable=broad-except
            out.bad("wrong-exception", f"{case['name']}: setattr(msg, {name!r}, ..) raised "
                    f"{type(err).__name__}: {err}")
        try:
            after = snapshot(msg)
        except Exception as err:  # pylint: disable=broad-except
            out.bad("message-broken-after-attempt", f"{case['name']}: after setattr {name!r}: "
                    f"{type(err).__name__}: {err}")
            break
        if after != before:
            out.bad("message-changed", f"{case['name']}: snapshot changed after attempt on {name!r}")
            break
    out.obs = core.h64(repr((case["name"], case["attempts"])))
    return out


def _names(payload):
    from pyrtcm import RTCMMessage  # pylint: disable=import-outside-toplevel

    try:
        msg = RTCMMessage(payload=payload)
    except Exception:  # pylint: disable=broad-except
        return None
    return list(dict.fromkeys(list(vars(msg)) + FRESH))


def _work(item):
    it, tier, pairs = item
    st = core.Stats()
    names = _names(it["payload"])
    if names is None:
        return st
    kinds = ("zero", "same", "false") if tier == "quick" else ("zero", "same", "false", "str")
    k = 0
    for name in names:
        for kind in kinds:
            case = {"name": it["name"], "payload": it["payload"], "attempts": [[name, kind]]}
            st.add(case, judge(case), keep_sample=(k == 0))
            k += 1
    if pairs:
        priv = [n for n in names if n.startswith("_")]
        pub = [n for n in names if not n.startswith("_")][:4] + FRESH[:2]
        for a, b in itertools.permutations(list(dict.fromkeys(priv + pub)), 2):
            case = {"name": it["name"], "payload": it["payload"],
                    "attempts": [[a, "false"], [b, "zero"]]}
            st.add(case, judge(case))
    return st


def run(tier, seed, t0):
    items = [i for i in corpus.build(tier) if i["kind"] != "fail"]
    step = 12 if tier == "quick" else 3
    work = [({"name": it["name"], "payload": it["payload"]}, tier, k % step == 0)
            for k, it in enumerate(items)]
    core.check_deterministic(judge, {"name": "x", "payload": items[0]["payload"],
                                     "attempts": [["DF002", "zero"]]})
    st = core.pmap(_work, work, chunksize=4)
    st.extra["corpus_messages"] = len(items)
    return core.finish(
        "C14", tier, seed, LEVEL, st, RULE, t0,
        assumptions=["assignment means the builtin setattr / attribute assignment statement; "
                     "object.__setattr__ and __dict__ surgery are outside the property"],
    )
