"""
C14 -- parsed messages are immutable.

Space: every corpus message x every name in vars(msg) (public and private) plus
{payload, identity, ismsm, a fresh public and a fresh private name} x value in
{0, the current value, a string}; all ordered pairs of attempts on a subset.
Oracle: setattr raises RTCMMessageError and the full snapshot is unchanged.
"""

import itertools

from mc import core, corpus

LEVEL = "exploration"
RULE = (
    "case = (corpus message, sequence of one or two (name, value-kind) assignment attempts); "
    "names = all instance attribute names incl. private ones + properties + fresh names; every "
    "attempt is made with the builtin setattr on a message obtained directly, from the parser, a file "
    "or socket reader, or through copy / deepcopy / pickle; non-trivial = always "
    "(each case makes at least one attempt); distinct = cases differ by construction"
)
FRESH = ["ZZ_new_public", "_zz_new_private", "payload", "identity", "ismsm", "DF002", "__class__x"]


def snapshot(msg):
    return (
        # all instance attributes, except private mutable containers: an augmented assignment such as
        # msg._satmap |= {...} mutates the container before __setattr__ is even called; the property
        # speaks of payload, identity, attribute values, string form and serialised bytes
        [(k, repr(v)) for k, v in vars(msg).items()
         if not (k.startswith("_") and isinstance(v, (list, dict, set, bytearray)))],
        msg.payload,
        msg.identity,
        str(msg),
        msg.serialize(),
        repr(msg),
    )


class _Hostile:
    """A value that cannot be looked at: every inspection of it raises."""

    def _no(self, *a, **k):
        raise RuntimeError("value inspected")

    __repr__ = __str__ = __eq__ = __ne__ = __hash__ = __bool__ = __len__ = __format__ = __iter__ = _no
    __int__ = __float__ = __index__ = __bytes__ = __lt__ = __gt__ = _no


def _safe_repr(val):
    try:
        return repr(val)[:200]
    except Exception as err:  # pylint: disable=broad-except
        return f"<{type(val).__name__} whose repr raises {type(err).__name__}>"


def value_for(kind, msg, name):
    if kind == "zero":
        return 0
    if kind == "hostile":
        return _Hostile()
    if kind == "huge":
        return 10 ** 5000  # its decimal rendering exceeds the interpreter's int -> str limit
    if kind == "deep":
        v = []
        for _ in range(3000):
            v = [v]
        return v  # its repr exceeds the recursion limit
    if kind == "same":
        try:
            return getattr(msg, name)
        except AttributeError:
            return None
    if kind == "false":
        return False
    if kind in ("retyped", "retyped2"):
        # the SAME content as another type (a defensive-copy or normalising path may sit in front
        # of the immutability test): bytes <-> bytearray / memoryview, int <-> float / str, ...
        try:
            cur = getattr(msg, name)
        except AttributeError:
            cur = b"\x3e\xd0"
        first = kind == "retyped"
        if isinstance(cur, (bytes, bytearray)):
            return bytearray(cur) if first else memoryview(bytes(cur))
        if isinstance(cur, bool):
            return int(cur) if first else str(cur)
        if isinstance(cur, int):
            return (float(cur) if abs(cur) < 2 ** 1000 else complex(0, 1)) if first else str(cur)
        if isinstance(cur, float):
            return str(cur) if first else int(cur)
        if isinstance(cur, str):
            return cur.encode() if first else list(cur)
        return [cur] if first else (cur,)
    return "x"


def obtain(payload, source):
    """The message as a user would get it: built directly, parsed, or read from a stream."""
    import io  # pylint: disable=import-outside-toplevel

    from pyrtcm import RTCMMessage, RTCMReader  # pylint: disable=import-outside-toplevel
    from mc import pinned  # pylint: disable=import-outside-toplevel
    from mc.doubles import SegSocket  # pylint: disable=import-outside-toplevel

    if source == "direct":
        return RTCMMessage(payload=payload)
    if source in ("copy", "deepcopy", "pickle", "pickle0"):
        # the message as it arrives through the object-copy protocol (copy module, a
        # multiprocessing queue, an on-disk cache): still a parsed message
        import copy  # pylint: disable=import-outside-toplevel
        import pickle  # pylint: disable=import-outside-toplevel

        orig = RTCMMessage(payload=payload)
        if source == "copy":
            return copy.copy(orig)
        if source == "deepcopy":
            return copy.deepcopy(orig)
        return pickle.loads(pickle.dumps(orig, protocol=0 if source == "pickle0" else pickle.HIGHEST_PROTOCOL))
    frame = pinned.frame(payload)
    if source == "parse":
        return RTCMReader.parse(frame)
    if source == "file":
        return RTCMReader(io.BytesIO(frame)).read()[1]
    sock = SegSocket(frame, [5, 1] if source == "socket-seg" else [])
    try:
        return RTCMReader(sock, bufsize=3 if source == "socket-seg" else 4096).read()[1]
    finally:
        sock.close()


_REUSE = {}


def _prelude(kind):
    """Other messages are constructed (or fail to be) after the message under test exists."""
    from pyrtcm import RTCMMessage, RTCMReader  # pylint: disable=import-outside-toplevel

    if not kind:
        return
    steps = {"fail-none": [None], "fail-trunc": [b"\x3e\xd0\x00"], "fail-short": [b"\x3e"],
             "ok": [b"\xfa\x00\x01\x02"], "fail-then-ok": [b"\x3e\xd0\x00", b"\xfa\x00\x01\x02"],
             "reader-fail": "reader"}[kind]
    if steps == "reader":
        import io  # pylint: disable=import-outside-toplevel
        from mc import pinned  # pylint: disable=import-outside-toplevel

        rd = RTCMReader(io.BytesIO(pinned.frame(b"\x3e\xd0\x00")), quitonerror=0)
        rd.read()
        return
    for p in steps:
        try:
            RTCMMessage(payload=p) if p is not None else RTCMMessage()
        except Exception:  # pylint: disable=broad-except
            pass


@core.guard
def judge(case, reuse=False):
    """With case['warnings'] = 'error' the attempts are made in a host that has turned warnings into
    errors (python -W error, pytest -W error, warnings.simplefilter('error'))."""
    if case.get("warnings"):
        import warnings  # pylint: disable=import-outside-toplevel

        with warnings.catch_warnings():
            warnings.simplefilter(case["warnings"])
            return _judge(case, False)
    return _judge(case, reuse)


def _judge(case, reuse=False):
    """
    One case = a fresh message and a sequence of assignment attempts.  With reuse=True (the
    enumeration) the message of the previous case is kept as long as it is provably untouched
    (snapshot identical, no violation), which makes consecutive cases one long attempt history.
    """
    from pyrtcm.exceptions import RTCMMessageError  # pylint: disable=import-outside-toplevel

    out = core.Outcome()
    key = (case["payload"], case.get("source", "direct"))
    if reuse and _REUSE.get("key") == key:
        msg, before = _REUSE["msg"], _REUSE["before"]
    else:
        _REUSE.clear()
        try:
            msg = obtain(case["payload"], case.get("source", "direct"))
            if msg is None:
                raise ValueError("no message")
        except Exception:  # pylint: disable=broad-except
            out.nontrivial = False
            return out
        before = snapshot(msg)
    _prelude(case.get("prelude"))
    for name, kind in case["attempts"]:
        val = value_for(kind, msg, name)
        if kind == "iadd":
            # augmented assignment  msg.name += delta : read, in-place add, assign back
            try:
                cur = getattr(msg, name)
            except AttributeError:
                continue
            delta = b"\x00\x01" if isinstance(cur, (bytes, bytearray)) else "x" if isinstance(cur, str) \
                else 1 if isinstance(cur, (int, float)) and not isinstance(cur, bool) \
                else ["x"] if isinstance(cur, list) else {"x": 1} if isinstance(cur, dict) \
                else {"x"} if isinstance(cur, set) else ("x",) if isinstance(cur, tuple) else None
            if delta is None:
                continue
            if isinstance(cur, (dict, set)):
                cur |= delta  # in place for mutable containers, as an augmented assignment does
            else:
                cur += delta
            val = cur
        try:
            setattr(msg, name, val)
            out.bad("assignment-accepted" + (":private" if name.startswith("_") else ""),
                    f"{case['name']}: setattr(msg, {name!r}, {_safe_repr(val)}) did not raise")
        except RTCMMessageError:
            pass
        except Exception as err:  # pylint: disable=broad-except
            out.bad("wrong-exception", f"{case['name']}: setattr(msg, {name!r}, ..) raised "
                    f"{type(err).__name__}: {err}")
        try:
            after = snapshot(msg)
        except Exception as err:  # pylint: disable=broad-except
            out.bad("message-broken-after-attempt", f"{case['name']}: after setattr {name!r}: "
                    f"{type(err).__name__}: {err}")
            break
        if after != before:
            out.bad("message-changed", f"{case['name']}: snapshot changed after attempt on {name!r}")
            break
    out.obs = core.h64(repr((case["name"], case.get("source"), case.get("prelude"), case["attempts"])))
    if reuse and not out.violations:
        _REUSE.update(key=key, msg=msg, before=before)
    else:
        _REUSE.clear()
    return out


def _names(payload):
    from pyrtcm import RTCMMessage  # pylint: disable=import-outside-toplevel

    try:
        msg = RTCMMessage(payload=payload)
    except Exception:  # pylint: disable=broad-except
        return None
    return list(dict.fromkeys(list(vars(msg)) + FRESH))


def _work(item):
    it, tier, pairs = item
    st = core.Stats()
    names = _names(it["payload"])
    if names is None:
        return st
    kinds = ("zero", "same", "false", "iadd", "retyped", "retyped2") if tier == "quick" else \
        ("zero", "same", "false", "str", "iadd", "retyped", "retyped2")
    k = 0
    for name in names:
        for kind in kinds:
            case = {"name": it["name"], "payload": it["payload"], "attempts": [[name, kind]]}
            st.add(case, judge(case, reuse=True), keep_sample=(k == 0))
            k += 1
    # the same message obtained through the parser, a file reader and socket readers
    pubs = [n for n in names if not n.startswith("_")][:2]
    for source in ("parse", "file", "socket", "socket-seg", "copy", "deepcopy", "pickle", "pickle0"):
        for name in ["payload", "_payload", "ZZ_new_public"] + pubs:
            for kind in ("zero", "iadd", "retyped"):
                case = {"name": it["name"], "payload": it["payload"], "source": source,
                        "attempts": [[name, kind]]}
                st.add(case, judge(case, reuse=True))
    # attempts made after OTHER constructions (failing / succeeding) took place in between
    for prelude in ("fail-none", "fail-trunc", "fail-short", "ok", "fail-then-ok", "reader-fail"):
        for name in ["payload", "_payload", "ZZ_new_public"] + pubs[:1]:
            case = {"name": it["name"], "payload": it["payload"], "prelude": prelude,
                    "attempts": [[name, "zero"]]}
            st.add(case, judge(case))
    # values that cannot be inspected (repr / str / comparison / hashing raise) and a host that has
    # turned warnings into errors: the refusal must not depend on looking at the value or on
    # emitting anything first
    for name in ["payload", "_payload", "ZZ_new_public", "_immutable"] + pubs:
        for kind in ("hostile", "huge", "deep"):
            case = {"name": it["name"], "payload": it["payload"], "attempts": [[name, kind]]}
            st.add(case, judge(case, reuse=True))
        for wmode in ("error", "always"):
            case = {"name": it["name"], "payload": it["payload"], "warnings": wmode,
                    "attempts": [[name, "zero"], [name, "same"]]}
            st.add(case, judge(case))
    if pairs:
        priv = [n for n in names if n.startswith("_")]
        pub = [n for n in names if not n.startswith("_")][:4] + FRESH[:2]
        for a, b in itertools.permutations(list(dict.fromkeys(priv + pub)), 2):
            case = {"name": it["name"], "payload": it["payload"],
                    "attempts": [[a, "false"], [b, "zero"]]}
            st.add(case, judge(case))
    return st


def run(tier, seed, t0):
    items = [i for i in corpus.build(tier) if i["kind"] != "fail"]
    step = 12 if tier == "quick" else 3
    work = [({"name": it["name"], "payload": it["payload"]}, tier, k % step == 0)
            for k, it in enumerate(items)]
    core.check_deterministic(judge, {"name": "x", "payload": items[0]["payload"],
                                     "attempts": [["DF002", "zero"]]})
    st = core.pmap(_work, work, chunksize=4)
    # assignment attempts under other interpreter configurations (-O, -OO, -W error, -X dev)
    core.interpreter_modes("C14", [
        {"name": it["name"], "payload": it["payload"], "source": src,
         "attempts": [["payload", "zero"], ["ZZ_new_public", "zero"], ["DF002", "same"], ["_immutable", "false"]]}
        for it in items[::7] for src in ("direct", "parse", "deepcopy")], st)
    st.extra["corpus_messages"] = len(items)
    return core.finish(
        "C14", tier, seed, LEVEL, st, RULE, t0,
        assumptions=["assignment means the builtin setattr / attribute assignment statement; "
                     "object.__setattr__ and __dict__ surgery are outside the property"],
    )
