"""
C01 -- the reader delivers only intact, exactly-delimited RTCM3 frames.

E1 over (stream, fault schedule): streams = all item sequences up to depth d
over the full (hostile) alphabet, and all byte strings up to length L over the
sync-dense byte alphabet followed by one valid frame; at every read()/readline()
of the stream double the environment answers full / empty / 1 byte / all-but-one.
"""

import itertools

from mc import core, items, pinned, readerharness as H
from mc.explore import explore

LEVEL = "model_checking"
RULE = (
    "execution = (stream, fault schedule) run on the real RTCMReader until genuine end of data; "
    "streams: every item sequence of depth <= d over the hostile alphabet + every byte string of "
    "length <= L over {D3,00,01,03,B5,62,24,'G',0A,58} followed by a valid frame; fault schedules: "
    "every placement of <= k non-default answers (empty / 1 byte / all-but-one) over the stream "
    "calls (E1, deviation-bounded); states = distinct (stream, cursor, reader-attribute snapshot) "
    "between read() calls, transitions = read() calls; non-trivial = at least one pair delivered "
    "or one frame rejected; every execution is a trace of the implementation"
)
BYTE_ALPHABET = [0xD3, 0x00, 0x01, 0x03, 0xB5, 0x62, 0x24, 0x47, 0x0A, 0x58]


def _snap(reader):
    return tuple(sorted((k, repr(v)) for k, v in vars(reader).items()
                        if not k.startswith("_logger") and k not in ("_stream", "_errorhandler")))


def run_one(source, choices, out, cfg=None):
    cfg = cfg or {}
    rec = H.execute(source, choices, validate=1, quitonerror=cfg.get("q", 1), parsed=True,
                    returns="seekable" if cfg.get("seekable") else bytes)
    H.check_pairs(source, rec["events"], out)
    for ev in rec["events"]:
        if ev[0] == "nonterm":
            out.bad("nontermination", f"read() exceeded its call budget at stream position {ev[1]}")
    npairs = sum(1 for e in rec["events"] if e[0] == "pair")
    out.nontrivial = npairs > 0 or bool(rec["handler_calls"])
    out.transitions += len(rec["events"])
    cursors = {(e[1] if e[0] != "pair" else e[2]) for e in rec["events"]}
    out.extra.setdefault("cursors", set()).update(cursors)
    out.obs = core.h64(repr(([(e[0], e[1], e[2] if len(e) > 2 else None) for e in rec["events"]],
                             len(rec["handler_calls"]))))
    return rec


@core.guard
def judge(case):
    out = core.Outcome()
    if case.get("family") == "sockets":
        return judge_sockets(case)
    if case.get("family") == "iter":
        return judge_iter(case)
    run_one(case["source"], case.get("choices", ()), out, case.get("cfg"))
    return out


# -- stream kinds other than the fault-injecting double ---------------------------------------
def _locate(source, raws, out, label):
    """Every raw must be a slice of THIS source, the slices non-overlapping and in stream order."""
    from mc import pinned  # pylint: disable=import-outside-toplevel

    pos = 0
    for k, (raw, msg) in enumerate(raws):
        raw = bytes(raw)
        at = source.find(raw, pos)
        if at < 0:
            where = "earlier in this stream (overlap / repeat)" if source.find(raw) >= 0 else \
                "nowhere in this stream"
            out.bad("raw-not-contiguous-slice" if source.find(raw) < 0 else "pairs-overlap",
                    f"{label}: pair {k} raw {raw[:10].hex()}.. ({len(raw)} B) occurs {where} "
                    f"(search from offset {pos} of {len(source)})")
            return
        pos = at + len(raw)
        if not pinned.frame_ok(raw):
            out.bad("malformed-frame-delivered:other", f"{label}: pair {k} is not a well-formed frame")
        elif msg is None or bytes(msg.payload) != raw[3:-3]:
            out.bad("payload-not-frame-body", f"{label}: pair {k} parsed payload is not the frame body")
        elif len(raw) >= 8 and msg.identity != pinned.ref_identity(raw[3:-3]):
            out.bad("identity-wrong", f"{label}: pair {k} identity {msg.identity!r}")


def judge_sockets(case):
    """
    A HISTORY of connections in one process: readers over sockets one after another (the earlier
    ones possibly abandoned half-way); every pair a reader returns must come from ITS OWN stream.
    """
    from pyrtcm import RTCMReader  # pylint: disable=import-outside-toplevel
    from mc.doubles import NonTermination, SegSocket  # pylint: disable=import-outside-toplevel

    out = core.Outcome()
    lib = H.lib_exceptions()
    for k, conn in enumerate(case["conns"]):
        source, segs, take = conn["source"], conn["segs"], conn.get("take")
        sock = SegSocket(conn.get("wire", source), segs)
        raws = []
        try:
            rdr = RTCMReader(sock, validate=1, quitonerror=case.get("q", 0),
                             bufsize=case.get("bufsize", 4096), encoding=conn.get("encoding", 0))
            for _ in range(len(source) + 8):
                if take is not None and len(raws) >= take:
                    break
                try:
                    raw, msg = rdr.read()
                except lib:
                    continue
                if raw is None and msg is None:
                    break
                raws.append((raw, msg))
                out.transitions += 1
        except NonTermination:
            out.bad("nontermination", f"connection {k}: recv budget exceeded")
        except Exception as err:  # pylint: disable=broad-except
            out.bad("foreign-exception", f"connection {k}: {type(err).__name__}: {err}")
        finally:
            sock.close()
        _locate(source, raws, out, f"connection {k} of {len(case['conns'])} ({conn['name']}, segments {segs})")
        if raws:
            out.nontrivial = True
    out.obs = core.h64(repr((case["name"], out.transitions)))
    return out


ITER_OPS = ("read", "next", "for1", "for2", "forall", "iternext", "rebind")


def judge_iter(case):
    """
    One reader over a SEEKABLE stream driven through a sequence of the iteration protocols a
    caller may mix (read(), next(), for-loops left early, a fresh iter()): pairs must be
    non-overlapping slices in stream order whatever the mix.
    """
    import io  # pylint: disable=import-outside-toplevel

    from pyrtcm import RTCMReader  # pylint: disable=import-outside-toplevel

    out = core.Outcome()
    source = case["source"]
    lib = H.lib_exceptions()
    stream = io.BytesIO(source) if case["kind"] == "bytesio" else io.BufferedReader(io.BytesIO(source), 16)
    stream.read(case.get("prelude", 0))
    rdr = RTCMReader(stream, validate=1, quitonerror=0)
    events = []

    def got(raw, msg):
        events.append(("pair", stream.tell() - len(raw), stream.tell(), raw, msg))

    try:
        for op in case["ops"]:
            if op == "read":
                raw, msg = rdr.read()
                if raw is not None:
                    got(raw, msg)
            elif op == "next":
                try:
                    got(*next(rdr))
                except StopIteration:
                    pass
            elif op == "rebind":
                # the caller drops this reader and builds a new one over the SAME stream object
                rdr = RTCMReader(stream, validate=1, quitonerror=0)
            elif op == "iternext":
                try:
                    got(*next(iter(rdr)))
                except StopIteration:
                    pass
            else:
                lim = {"for1": 1, "for2": 2, "forall": 1 << 30}[op]
                n = 0
                for raw, msg in rdr:
                    got(raw, msg)
                    n += 1
                    if n >= lim:
                        break
    except lib as err:
        out.obs = ("lib", type(err).__name__)
    except Exception as err:  # pylint: disable=broad-except
        out.bad("foreign-exception", f"{case['name']}: {type(err).__name__}: {err}")
    H.check_pairs(source, events, out)
    out.transitions = len(events)
    out.nontrivial = len(events) > 0
    out.obs = core.h64(repr((case["name"], [(e[1], e[2]) for e in events])))
    return out


def kind_cases(tier):
    alpha = items.full_alphabet(tier)
    short = [a for a in alpha if len(a["data"]) <= 40]
    out = []
    # histories of two (thorough: three) connections; segmentations: all at once, byte by byte,
    # and every two-way split of the first connection's stream
    def segsets(data):
        sets = [[], [1] * len(data)]
        sets += [[k] for k in range(1, min(len(data), 24))]
        return sets

    for a in short:
        for b in short:
            if a["data"] == b["data"]:
                continue
            for sa in segsets(a["data"]):
                out.append({"family": "sockets", "name": f"{a['name']}|{b['name']}/{len(sa)}",
                            "conns": [{"name": a["name"], "source": a["data"], "segs": sa},
                                      {"name": b["name"], "source": b["data"], "segs": []}]})
    f = items.frames()
    multi = [items.concat(["F2", "F19", "Fmsm"]), items.concat(["Fnested", "nmeaG", "F2", "F0", "F19"]),
             items.concat(["F19", "dmgcrc", "F2", "D3", "Fsync", "F1"])]
    for m in multi:
        for other in multi:
            for take in (None, 0, 1, 2):
                for sa in ([], [1] * 30, [7, 9, 3]):
                    out.append({"family": "sockets", "name": f"multi/{take}",
                                "conns": [{"name": "m", "source": m, "segs": sa, "take": take},
                                          {"name": "o", "source": other[::1] + f["F1"]["data"], "segs": []},
                                          {"name": "m2", "source": f["F0"]["data"] + m, "segs": [2, 5]}]})
    # small receive buffers (the wrapper's buffer bookkeeping is exercised at every multiple of
    # bufsize) over streams where a frame is followed by bytes that would complete ANOTHER valid
    # frame if the tail of the first one were delivered twice ("overlap baits")
    baits = []
    for nm, k in (("FcrcD3", 1), ("FcrcD300", 3)):  # trailers ..D3 and D3 00 02
        first = f[nm]["data"]
        for gp in (b"\xfa\x70", b"\x3e\xd0"):
            g = pinned.frame(gp)  # D3 00 02 <2 payload bytes> <crc>
            core.require(first[-k:] == g[:k], "overlap bait construction")
            baits.append((f"{nm}+tail{k}", first + g[k:]))
    for name, data in baits + [(f"multi{i}", m) for i, m in enumerate(multi)]:
        for noise in range(0, 8):
            src = b"\x00" * noise + data
            for bs in list(range(1, 34)) + [64]:
                out.append({"family": "sockets", "name": f"{name}/noise{noise}/bufsize{bs}", "bufsize": bs,
                            "conns": [{"name": name, "source": src, "segs": []}]})
                if bs in (1, 2, 3, 5, 8, 16):
                    out.append({"family": "sockets", "name": f"{name}/noise{noise}/bufsize{bs}/7",
                                "bufsize": bs, "conns": [{"name": name, "source": src, "segs": [7] * 40}]})
    # the extra hostile items over ONE socket connection, followed by each frame of the alphabet
    for e in items.hostile_extra():
        for a in [x for x in alpha if x.get("kind") == "frame"][:10]:
            src = e["data"] + a["data"]
            for sa in ([], [1] * len(src), [len(e["data"])]):
                out.append({"family": "sockets", "name": f"{e['name']}+{a['name']}/{len(sa)}",
                            "conns": [{"name": e["name"] + "+" + a["name"], "source": src, "segs": sa}]})
    # a frame with line-ending / padding junk INSERTED at any position, the receive boundary falling
    # right before or right behind the junk (a transport layer that trims each received segment
    # would splice the two halves into a frame that never was in the stream)
    for nm in ("F2", "F19", "F1"):
        fr = f[nm]["data"]
        for junk in (b"\r\n", b"\n", b"\r", b"\x00", b" ", b"\r\n\r\n", b"0\r\n"):
            for pos in range(1, len(fr)):
                src = fr[:pos] + junk + fr[pos:] + f["F0"]["data"] + f["F2"]["data"]
                for sa in ([pos], [pos + len(junk)], [pos, len(junk)]):
                    out.append({"family": "sockets", "name": f"{nm}ins{pos}:{junk.hex()}/{sa}",
                                "conns": [{"name": f"{nm}ins{pos}:{junk.hex()}", "source": src, "segs": sa}]})
    # chunked transfer coding over a socket: the decoded stream is the source, every two-way split
    # of the encoded stream (and byte-wise delivery) is tried
    def chunked(data, size):
        w = b""
        for k in range(0, len(data), size):
            part = data[k:k + size]
            w += f"{len(part):x}".encode() + b"\r\n" + part + b"\r\n"
        return w + b"0\r\n\r\n"

    for k, m in enumerate(multi[:2]):
        for size in (len(m), 11, 30):
            wire = chunked(m, size)
            for sa in [[]] + [[c] for c in range(1, len(wire))] + [[1] * len(wire)]:
                out.append({"family": "sockets", "name": f"chunked{size}/multi{k}/{sa[:1]}",
                            "conns": [{"name": f"chunked multi{k}", "source": m, "wire": wire, "segs": sa,
                                       "encoding": 1}]})
    depth = 3 if tier == "quick" else 4
    for kind in ("bytesio", "buffered"):
        for m in multi:
            for prelude in (0, 3):
                for d in range(1, depth + 1):
                    for ops in itertools.product(ITER_OPS, repeat=d):
                        out.append({"family": "iter", "name": f"{kind}/{'+'.join(ops)}/{prelude}",
                                    "kind": kind, "source": m, "ops": list(ops), "prelude": prelude})
    return out


def _work_kinds(chunk):
    return core.run_cases(judge, chunk, sample_every=2003)


def explore_stream(name, source, bound, st, cfg=None, keep=False):
    cursors = set()
    first = [True]

    def body(ch):
        out = core.Outcome()
        rec = H.execute(source, (), validate=1, quitonerror=(cfg or {}).get("q", 1), parsed=True,
                        chooser=ch, returns="seekable" if (cfg or {}).get("seekable") else bytes)
        H.check_pairs(source, rec["events"], out)
        for ev in rec["events"]:
            if ev[0] == "nonterm":
                out.bad("nontermination", f"read() exceeded its call budget at position {ev[1]}")
        npairs = sum(1 for e in rec["events"] if e[0] == "pair")
        out.nontrivial = npairs > 0 or bool(rec["handler_calls"])
        out.transitions = len(rec["events"])
        for e in rec["events"]:
            cursors.add(e[1] if e[0] != "pair" else e[2])
        out.obs = core.h64(repr((name, [(e[0], e[1], e[2] if len(e) > 2 else None)
                                        for e in rec["events"]], len(rec["handler_calls"]))))
        return out

    for choices, devs, out in explore(body, bound=bound):
        case = {"stream": name, "source": source, "choices": list(choices), "cfg": cfg or {}}
        st.add(case, out, keep_sample=(keep and first[0]))
        first[0] = False
        st.extra[f"executions_with_{devs}_faults"] = st.extra.get(f"executions_with_{devs}_faults", 0) + 1
    st.states += len(cursors)


def _work(item):
    kind, payload, bound, cfg = item
    st = core.Stats()
    for k, (name, source) in enumerate(payload):
        explore_stream(name, source, bound, st, cfg, keep=(k == 0))
    return st


def plan(tier):
    alpha = items.full_alphabet(tier)
    f2 = items.frames()["F2"]["data"]
    if tier == "quick":
        depth, bound_items, lmax, lfault = 2, 1, 4, 2
    else:
        depth, bound_items, lmax, lfault = 3, 1, 6, 4
    work = []
    seqs = []
    for d in range(1, depth + 1):
        for combo in itertools.product(alpha, repeat=d):
            seqs.append(("+".join(i["name"] for i in combo), b"".join(i["data"] for i in combo)))
    extra = items.hostile_extra()
    for e in extra:  # depth <= 2 with at least one of the extra hostile items
        seqs.append((e["name"], e["data"]))
        for a in alpha:
            seqs.append((e["name"] + "+" + a["name"], e["data"] + a["data"]))
            seqs.append((a["name"] + "+" + e["name"], a["data"] + e["data"]))
    for ch in core.chunks(seqs, 40 if tier == "quick" else 150):
        work.append(("items", ch, bound_items, None))
    # the same fault exploration over a SEEKABLE stream (a reader may treat it differently)
    wf = items.wellformed(tier)
    sk = [i for i in wf if i["kind"] == "frame"][:8] + [i for i in alpha if i["name"] in
                                                         ("nmeaG", "dmgcrc", "D3", "trunc5", "D300")]
    seqs_sk = []
    for d in (1, 2, 3):
        for combo in itertools.product(sk, repeat=d):
            if d == 3 and sum(len(i["data"]) for i in combo) > 90:
                continue
            seqs_sk.append(("+".join(i["name"] for i in combo), b"".join(i["data"] for i in combo)))
    for ch in core.chunks(seqs_sk, 60):
        work.append(("items-seekable", ch, 1, {"seekable": True}))
    if tier == "quick":
        seq3 = [("+".join(i["name"] for i in combo), b"".join(i["data"] for i in combo))
                for combo in itertools.product(alpha, repeat=3)]
        for ch in core.chunks(seq3, 500):
            work.append(("items3", ch, 0, None))
    if tier == "thorough":
        # two faults on all depth <= 2 streams, and raise/ignore modes with one fault on depth <= 2
        seq2 = [s for s in seqs if s[0].count("+") <= 1]
        for ch in core.chunks(seq2, 20):
            work.append(("items2", ch, 2, None))
        for q in (0, 2):
            for ch in core.chunks(seq2, 60):
                work.append(("itemsq", ch, 1, {"q": q}))
    strings = []
    for ln in range(0, lmax + 1):
        for combo in itertools.product(BYTE_ALPHABET, repeat=ln):
            strings.append((bytes(combo).hex() + "+F2", bytes(combo) + f2))
    for ch in core.chunks(strings, 400 if tier == "quick" else 4000):
        work.append(("bytes", ch, 0, None))
    short = [s for s in strings if len(s[1]) - len(f2) <= lfault]
    for ch in core.chunks(short, 20 if tier == "quick" else 100):
        work.append(("bytesf", ch, 1, None))
    return work, {"depth": depth, "fault_bound": bound_items, "byte_len": lmax,
                  "byte_len_with_fault": lfault, "alphabet": len(alpha),
                  "extra_hostile_items_depth2": len(extra)}


def run(tier, seed, t0):
    work, info = plan(tier)
    core.check_deterministic(judge, {"source": items.concat(["F2", "D3", "F19"]), "choices": [0, 1]})
    st = core.pmap(_work, work)
    kc = kind_cases(tier)
    st2 = core.pmap(_work_kinds, core.chunks(kc, 400))
    st.merge(st2)
    st.extra["socket_history_cases"] = sum(1 for c in kc if c["family"] == "sockets")
    st.extra["iteration_protocol_cases"] = sum(1 for c in kc if c["family"] == "iter")
    st.extra.pop("cursors", None)
    st.extra.update({f"bound_{k}": v for k, v in info.items()})
    return core.finish(
        "C01", tier, seed, LEVEL, st, RULE, t0,
        assumptions=[
            "items and the byte alphabet are representatives of frames, foreign traffic, noise "
            "and false sync bytes",
            "a fault is an empty answer, a single byte or all-but-one byte of what was due; bytes "
            "not returned stay in the stream (as a serial port / socket would keep them)",
            "frames lost after a false sync or a fault are allowed (C01 is a soundness property)",
        ],
    )
