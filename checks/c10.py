"""
C10 -- message layouts conform to the published standards and to each other.

Parts (DESIGN.md 4, C10):
 static   every identity of the three tables: fields defined, counters/conditions
          refer to earlier fields, group bodies are dicts, identity reachable
          through the real dispatch (not a stub), pinned identities still defined
 length   every identity x full product of the count menus: the real decoder
          accepts the payload laid out from the PINNED tables, produces exactly
          the pinned attribute names, consumes exactly the pinned number of bits
          (bit nbits-1 matters, bits >= nbits do not, one byte less is rejected);
          pinned lengths are cross-checked against hand-written standard formulas
 map      bit -> attribute ownership recovered black-box by flipping every bit on
          an all-zeros and an all-ones valuation; must equal the pinned
          (name, offset, width) sequence; decoding class (unsigned / two's
          complement / sign-magnitude / text) recovered from extreme values
 sibling  parallel / composite families decode identical block bits to
          identical value sequences (1057+1058=1060, 1063+1064=1066, IGM01+IGM02
          =IGM03 x 6, 1001..1004, 1009..1012, 1015..1017, 1037..1039, MSM levels
          across the seven constellations)
"""

import itertools

from mc import core, pinned
from mc import refmodel as R
from mc import shapes as S

LEVEL = "exploration"
RULE = (
    "cases = static walk per identity; (identity, shape) length cases over the full product of "
    "count menus; (identity, shape) bit-ownership maps with every payload bit flipped on two "
    "bases; sibling cases (family, block valuation, item count); all decoded by the real "
    "RTCMMessage from payloads laid out with the PINNED tables; non-trivial = the case has at "
    "least one repeated/optional group item or compares at least two sibling decodings; "
    "distinct = cases differ by construction"
)


def _libexc():
    from pyrtcm import exceptions as E  # pylint: disable=import-outside-toplevel

    return (E.RTCMTypeError, E.RTCMMessageError, E.RTCMParseError, E.RTCMStreamError)


def _parse(payload):
    from pyrtcm import RTCMMessage  # pylint: disable=import-outside-toplevel

    return RTCMMessage(payload=payload)


def pinned_layout(identity, shape, mode="zeros", sets=None):
    pf, pd = pinned.load_tables()
    if identity not in pd:
        return None
    try:
        occs, nbits = R.layout(identity, R.Valuation(shape, mode, sets), pdict=pd[identity], fields=pf)
    except R.TooLong:
        return None
    return occs, nbits


# ---------------------------------------------------------------------------
# static
# ---------------------------------------------------------------------------
def static_walk(identity, pdict, fields, out):
    def walk(body, scope, depth, path):
        if not isinstance(body, dict):
            out.bad("definition-malformed", f"{identity}: group body at {path} is "
                    f"{type(body).__name__}, not dict: {body!r}")
            return
        for key, adef in body.items():
            if isinstance(adef, tuple):
                if len(adef) != 2:
                    out.bad("definition-malformed", f"{identity}: {path}/{key}: tuple len {len(adef)}")
                    continue
                spec, sub = adef
                if isinstance(spec, tuple):
                    if len(spec) != 2 or spec[0] not in scope:
                        out.bad("condition-refers-to-nothing",
                                f"{identity}: {path}/{key}: condition {spec!r} not decoded earlier")
                    walk(sub, scope, depth, f"{path}/{key}")
                else:
                    if isinstance(spec, str):
                        base = spec.split("+")[0]
                        lv = int(spec.split("+")[1]) if "+" in spec else 0
                        ok = (
                            base in ("NSat", "NCell", "NSig") and "DF396" in scope
                            or base.startswith("_NHarmCoeff") and "IDF038" in scope
                            or (base in scope and lv <= depth
                                and (scope[base] == depth or lv == scope[base]))
                        )
                        if not ok:
                            out.bad("count-refers-to-nothing",
                                    f"{identity}: {path}/{key}: repeat count {spec!r} does not name a "
                                    f"field decoded earlier at a reachable nesting level")
                    elif not isinstance(spec, int) or isinstance(spec, bool) or spec < 0:
                        out.bad("definition-malformed", f"{identity}: {path}/{key}: spec {spec!r}")
                    inner = dict(scope)
                    walk(sub, inner, depth + 1, f"{path}/{key}")
            elif isinstance(adef, str):
                if key not in fields:
                    out.bad("field-undefined", f"{identity}: {path}/{key} is not a defined data field")
                scope[key] = depth
            else:
                out.bad("definition-malformed", f"{identity}: {path}/{key}: {type(adef).__name__}")

    walk(pdict, {}, 0, "")


def judge_static(case, out):
    fields, std, msm, igs = R.tables()
    identity, tbl = case["id"], case["table"]
    if case.get("badkey"):
        out.bad("definition-unreachable",
                f"table {tbl} has the key {identity} which is not a string: identities are strings, so "
                f"this definition can never be selected")
        return
    pdict = {"std": std, "msm": msm, "igs": igs}[tbl].get(identity)
    if pdict is None:
        if identity in pinned.IMPLEMENTED:
            out.bad("pinned-identity-undefined", f"{identity} has no payload definition any more")
        return
    if identity.startswith("4076_") and identity not in pinned.IMPLEMENTED:
        # IGS SSR v1 (the version the property names) is a closed list: GNSS blocks 20..120 x
        # IGM01-07 and 201; a definition under any other sub-type specifies bits the standard does not
        out.bad("igs-subtype-not-in-ssr-v1",
                f"{identity} has a payload definition, but IGS SSR v1 defines no sub-type "
                f"{identity[5:]} (defined: 021-027, 041-047, 061-067, 081-087, 101-107, 121-127, 201)")
        return
    static_walk(identity, pdict, fields, out)
    if out.violations:
        return
    # reachable through the real dispatch: a zero-count payload must decode as that type
    try:
        payload, occs, _ = R.build(identity, {}, "fp")
    except (R.BadDefinition, R.TooLong) as err:
        out.bad("definition-unreachable", f"{identity} (table {tbl}): {err}")
        return
    try:
        msg = _parse(payload + b"\x00" * 8)
    except Exception as err:  # pylint: disable=broad-except
        out.bad("definition-undecodable", f"{identity}: minimal payload raises {type(err).__name__}: {err}")
        return
    names = {k for k in vars(msg) if not k.startswith("_")}
    want = {o.key if o.typ == "STR" else o.name for o in occs if o.role != "derived" and o.typ != "STR"}
    if not want <= names or not isinstance(getattr(msg, "DF002", None), int):
        out.bad("definition-unreachable",
                f"{identity} is defined in table {tbl} but decodes as a stub / other layout "
                f"(missing {sorted(want - names)[:4]})")


# ---------------------------------------------------------------------------
# length
# ---------------------------------------------------------------------------
def x_counts(identity, occs):
    """Counts in the form mc.pinned.x_length expects, from the pinned layout."""
    if identity.isdigit() and int(identity) in pinned.MSM_NUMBERS:
        m = {o.key: o.raw for o in occs if o.key in ("DF394", "DF395", "DF396")}
        return (R.popcount(m["DF394"]), R.popcount(m["DF395"]), R.popcount(m["DF396"]))
    if identity == "1230":
        return [o.raw for o in occs if o.key.startswith("DF422_")]
    if identity == "4076_201":
        deg = [o.raw for o in occs if o.key == "IDF037"]
        ordr = [o.raw for o in occs if o.key == "IDF038"]
        return list(zip(deg, ordr))
    f = pinned.X_LENGTHS.get(identity)
    if f is None:
        return None
    st = [o for o in occs if o.role == "struct"]
    if len(f) == 3:
        return [o.raw for o in st if o.idx]
    return [o.raw for o in st if not o.idx]


def judge_length(case, out):
    identity, shape = case["id"], case["shape"]
    lay = pinned_layout(identity, shape, "ones")
    if lay is None:
        out.nontrivial = False
        return
    occs, nbits = lay
    if nbits > R.MAXBITS:
        out.nontrivial = False
        return
    out.nontrivial = any(o.idx for o in occs) or any(v for v in shape.values())
    xc = x_counts(identity, occs)
    if xc is not None:
        xl = pinned.x_length(identity, xc)
        if xl != nbits:
            raise core.Broken(f"pinned snapshot disagrees with the hand-written formula for "
                              f"{identity} {shape}: {nbits} vs {xl}")
        out.extra["x_checked"] = 1
    full = (nbits + 7) // 8
    payload = R.encode(occs, nbits, 0, b"")
    # 1 exact acceptance, names
    try:
        msg = _parse(payload)
    except Exception as err:  # pylint: disable=broad-except
        out.bad("standard-length-rejected",
                f"{identity} {shape}: a payload of exactly the standard's {nbits} bits "
                f"({full} B) is rejected: {type(err).__name__}: {err}")
        return
    got = [k for k in vars(msg) if not k.startswith("_") and not R.is_excluded(k)]
    exp = [n for n, _ in R.expected(occs)]
    if sorted(got) != sorted(n for n in exp if n in got or True):
        missing = [n for n in exp if n not in got]
        extra = [n for n in got if n not in exp]
        strs = {o.key for o in occs if o.typ == "STR"}
        missing = [n for n in missing if n not in strs]
        if missing or extra:
            out.bad("field-set-differs",
                    f"{identity} {shape}: decoded attribute names differ from the pinned layout: "
                    f"missing {missing[:5]}, unexpected {extra[:5]}")
            return
    base = R.public_attrs(msg)
    # 2 one byte less must fail
    if full - 1 >= (3 if identity.startswith("4076") else 2):
        try:
            _parse(payload[:-1])
            out.bad("consumes-fewer-bits",
                    f"{identity} {shape}: standard length {nbits} bits, but a payload one byte "
                    f"shorter ({full - 1} B) still decodes")
        except Exception:  # pylint: disable=broad-except
            pass
    # 3 last bit matters, pad and trailing bits do not
    ext = bytearray(payload + b"\x00")
    ref = R.public_attrs(_parse(bytes(ext)))
    if ref != base:
        out.bad("trailing-byte-changes", f"{identity} {shape}: a trailing zero byte changes attributes")
    last = occs[-1] if occs else None
    for b in range(max(0, nbits - 2), full * 8 + 8):
        ext[b // 8] ^= 0x80 >> (b % 8)
        try:
            cur = R.public_attrs(_parse(bytes(ext)))
        except Exception:  # pylint: disable=broad-except
            cur = None
        ext[b // 8] ^= 0x80 >> (b % 8)
        changed = cur != ref
        if b >= nbits and changed:
            out.bad("consumes-more-bits",
                    f"{identity} {shape}: bit {b} lies beyond the standard length {nbits} but "
                    f"changes the decoded message")
            break
        if b == nbits - 1 and not changed and last is not None and last.width:
            out.bad("consumes-fewer-bits",
                    f"{identity} {shape}: last bit {b} of the standard layout does not influence "
                    f"the decoded message")
    out.obs = core.h64(repr((identity, sorted(shape.items()), nbits)))


# ---------------------------------------------------------------------------
# map
# ---------------------------------------------------------------------------
def _diff(ref, cur):
    if cur is None:
        return None
    a, b = dict(ref), dict(cur)
    return {k for k in set(a) | set(b) if k not in a or k not in b or a[k] != b[k]
            or type(a[k]) is not type(b[k]) and isinstance(a[k], str) != isinstance(b[k], str)}


RES = pinned.load_resolutions()


def judge_map(case, out):
    identity, shape = case["id"], case["shape"]
    lay0 = pinned_layout(identity, shape, "zeros")
    if lay0 is None:
        out.nontrivial = False
        return
    occs0, nbits = lay0
    if nbits > R.MAXBITS:
        out.nontrivial = False
        return
    occs1, _ = pinned_layout(identity, shape, "ones")
    owner = {}
    for o in occs0:
        for b in range(o.off, o.off + o.width):
            owner[b] = o
    hits = {}  # ordinal -> set of bits seen changing exactly that attribute
    for occs in (occs0, occs1):
        payload = bytearray(R.encode(occs, nbits, 0, b"\x00"))
        try:
            ref = R.public_attrs(_parse(bytes(payload)))
        except Exception as err:  # pylint: disable=broad-except
            out.bad("standard-length-rejected", f"{identity} {shape}: {type(err).__name__}: {err}")
            return
        for b in range(0, len(payload) * 8):
            o = owner.get(b)
            if o is not None and o.role != "plain":
                continue
            payload[b // 8] ^= 0x80 >> (b % 8)
            try:
                cur = R.public_attrs(_parse(bytes(payload)))
            except Exception:  # pylint: disable=broad-except
                cur = None
            payload[b // 8] ^= 0x80 >> (b % 8)
            ch = _diff(ref, cur)
            if o is None:
                if ch is None or ch:
                    out.bad("padding-owned",
                            f"{identity} {shape}: bit {b} (padding/trailing by the standard layout) "
                            f"influences {sorted(ch)[:3] if ch else 'parse failure'}")
                    return
                continue
            name = o.key if o.typ == "STR" else o.name
            if ch is None:
                out.bad("layout-map-mismatch",
                        f"{identity} {shape}: flipping bit {b} of plain field {name} makes the parse fail")
                return
            if ch - {name}:
                out.bad("layout-map-mismatch",
                        f"{identity} {shape}: bit {b} belongs to {name} [{o.off},{o.off + o.width}) in "
                        f"the standard layout but changes {sorted(ch - {name})[:4]}")
                return
            if ch:
                hits.setdefault(o.ordinal, set()).add(b)
    for o in occs0:
        if o.role != "plain" or not o.width:
            continue
        name = o.key if o.typ == "STR" else o.name
        got = hits.get(o.ordinal, set())
        want = set(range(o.off, o.off + o.width))
        if got != want:
            out.bad("layout-map-mismatch",
                    f"{identity} {shape}: field {name} should own bits [{o.off},{o.off + o.width}); "
                    f"bits with no influence on it: {sorted(want - got)[:6]}")
            return
    # decoding class from extremes
    classes = {"UINT": "U", "INT": "I", "SNT": "S", "CHA": "C", "STR": "T"}
    plain = [o for o in occs0 if o.role == "plain" and o.width]
    done = set()
    for o in plain:
        if o.key in done:
            continue
        done.add(o.key)
        top, msb = (1 << o.width) - 1, 1 << (o.width - 1)
        vals = []
        for raw in (top, msb):
            oc, _ = pinned_layout(identity, shape, "zeros", {o.ordinal: raw})
            try:
                msg = _parse(R.encode(oc, nbits, 0, b""))
                vals.append(getattr(msg, o.key if o.typ == "STR" else o.name))
            except Exception:  # pylint: disable=broad-except
                vals.append(None)
        want = classes[o.typ]
        if any(v is None for v in vals):
            got = "?"
        elif isinstance(vals[0], str):
            got = "C" if want == "C" else "T"
        elif vals[0] > 0 and vals[1] > 0:
            got = "U"
        elif vals[0] < 0 and vals[1] < 0:
            got = "I"
        elif vals[0] < 0 and vals[1] == 0:
            got = "S"
        elif o.width == 1 and vals[0] < 0:
            got = "I"
        else:
            got = "?"
        if o.width == 1 and want == "U" and got == "U":
            pass
        if got != want and not (want in "CT" and got in "CT"):
            out.bad("decoding-class-differs",
                    f"{identity}: field {o.key} ({o.width} bits) decodes all-ones as {vals[0]!r} and "
                    f"sign-bit-only as {vals[1]!r}: class {got}, standard class {want}")
            return
        # scale (resolution) of the field, from the same two extremes, against the pinned row
        if o.typ not in ("CHA", "STR") and o.key in RES:
            for raw, v in zip((top, msb), vals):
                ref_v = R.decode(o.typ, o.width, RES[o.key], raw)
                if not R.values_equal(v, ref_v):
                    out.bad("decoding-scale-differs",
                            f"{identity}: field {o.key} ({o.width} bits, {o.typ}) decodes raw {raw:#x} as "
                            f"{v!r}; with the pinned resolution {RES[o.key]!r} it is {ref_v!r}")
                    return
    out.transitions = 0
    out.obs = core.h64(repr((identity, sorted(shape.items()), "map")))


# ---------------------------------------------------------------------------
# siblings
# ---------------------------------------------------------------------------
# composite: (whole, [(part, [bit ranges of the whole item that make the part item])])
COMPOSITE = [
    ("1060", 205, [("1057", [(0, 135)]), ("1058", [(0, 6), (135, 205)])]),
    ("1066", 204, [("1063", [(0, 134)]), ("1064", [(0, 5), (134, 204)])]),
    ("1004", 125, [("1003", [(0, 58), (74, 117)]), ("1002", [(0, 74)]), ("1001", [(0, 58)])]),
    ("1012", 130, [("1011", [(0, 64), (79, 122)]), ("1010", [(0, 79)]), ("1009", [(0, 64)])]),
    ("1017", 53, [("1016", [(0, 36)]), ("1015", [(0, 11), (36, 53)])]),
    ("1039", 53, [("1038", [(0, 36)]), ("1037", [(0, 11), (36, 53)])]),
]
for _b in (20, 40, 60, 80, 100, 120):
    COMPOSITE.append((f"4076_{_b + 3:03d}", 205,
                      [(f"4076_{_b + 1:03d}", [(0, 135)]), (f"4076_{_b + 2:03d}", [(0, 6), (135, 205)])]))
# parallel: same item layout, different names (GPS / GLONASS SSR, IGS constellations)
PARALLEL = [
    [f"4076_{b + k:03d}" for b in (20, 40, 60, 80, 100, 120)] for k in (1, 2, 3, 4, 7)
] + [["1030", "1031", "1303", "1304"], ["1015", "1037"],
     ["1016", "1038"], ["1017", "1039"]]


def _counter_key(identity):
    _, pd = pinned.load_tables()
    for _k, v in pd[identity].items():
        if isinstance(v, tuple) and isinstance(v[0], str):
            return v[0]
    raise core.Broken(f"{identity}: no top-level counter")


def _header_and_item(identity, n):
    """pinned layout with n items: (header occs, [item occs...], nbits)."""
    ck = _counter_key(identity)
    occs, nbits = pinned_layout(identity, {ck: n}, "fp")
    hdr = [o for o in occs if not o.idx]
    items = [[o for o in occs if o.idx and o.idx[0] == i] for i in range(1, n + 1)]
    return hdr, items, nbits


def _bits_of(value, width, ranges):
    """Concatenate bit ranges [a,b) (MSB = bit 0) of a width-bit integer."""
    out, n = 0, 0
    for a, b in ranges:
        seg = (value >> (width - b)) & ((1 << (b - a)) - 1)
        out = (out << (b - a)) | seg
        n += b - a
    return out, n


def _decode_items(identity, n, blocks, width):
    """Real decode of identity with n item blocks of `width` bits given as integers."""
    hdr, items, _ = _header_and_item(identity, n)
    hv, hb = 0, 0
    for o in hdr:
        hv = (hv << o.width) | o.raw
        hb += o.width
    v, nb = hv, hb
    for blk in blocks:
        v = (v << width) | blk
        nb += width
    pad = (-nb) % 8
    payload = (v << pad).to_bytes((nb + pad) // 8, "big")
    msg = _parse(payload)
    seqs = []
    for it in items:
        core.require(sum(o.width for o in it) == width, f"sibling harness inconsistent: {(identity, width)}")
        seqs.append([getattr(msg, o.name) for o in it])
    return seqs


def _block_values(width, mode, k):
    if mode == "zeros":
        return 0
    if mode == "ones":
        return (1 << width) - 1
    if mode == "alt":
        return int("10" * width, 2) >> width
    v = 0
    for i in range(0, width, 8):
        v = (v << 8) | ((167 * (i // 8 + 1) + 89 * k + 13) & 0xFF)
    return v & ((1 << width) - 1)


def judge_sibling(case, out):
    kind = case["family"]
    n = case.get("n", 1)
    mode = case.get("mode", "fp")
    try:
        if kind == "composite":
            whole, width, parts = COMPOSITE[case["index"]]
            blocks = [_block_values(width, mode, k) ^ case.get("xor", 0) for k in range(n)]
            wseq = _decode_items(whole, n, blocks, width)
            wh, witems, _ = _header_and_item(whole, n)
            for part, ranges in parts:
                pb = [_bits_of(b, width, ranges) for b in blocks]
                pw = pb[0][1]
                pseq = _decode_items(part, n, [x for x, _ in pb], pw)
                for i in range(n):
                    # positions of whole-item fields wholly inside the ranges
                    sel = [j for j, o in enumerate(witems[i])
                           if any(a <= o.off - witems[i][0].off and o.off - witems[i][0].off + o.width <= b
                                  for a, b in ranges)]
                    wv = [wseq[i][j] for j in sel]
                    if len(wv) != len(pseq[i]) or any(not R.values_equal(x, y) for x, y in zip(wv, pseq[i])):
                        pos = next((j for j, (x, y) in enumerate(zip(wv, pseq[i]))
                                    if not R.values_equal(x, y)), None)
                        out.bad(f"sibling-mismatch:{whole}/{part}",
                                f"{whole} and {part} decode the same block bits differently "
                                f"(item {i + 1}, position {pos}): {wv} vs {pseq[i]}")
                        return
        elif kind == "parallel":
            group = PARALLEL[case["index"]]
            first = group[0]
            _, items, _ = _header_and_item(first, n)
            width = sum(o.width for o in items[0])
            blocks = [_block_values(width, mode, k) ^ case.get("xor", 0) for k in range(n)]
            ref = _decode_items(first, n, blocks, width)
            for other in group[1:]:
                seq = _decode_items(other, n, blocks, width)
                if any(len(a) != len(b) or any(not R.values_equal(x, y) for x, y in zip(a, b))
                       for a, b in zip(ref, seq)):
                    out.bad(f"sibling-mismatch:{first}/{other}",
                            f"{first} and {other} decode the same block bits differently: "
                            f"{ref[0]} vs {seq[0]}")
                    return
        elif kind == "msm":
            level = case["level"]
            shape = case["shape"]
            ref = None
            for base in pinned.MSM_BASES:
                identity = str(base * 10 + level)
                occs, nbits = pinned_layout(identity, shape, mode)
                # same bits for all constellations except the message number
                if ref is None:
                    refbits = R.encode(occs, nbits, 0, b"")
                num = int(identity)
                payload = bytearray(refbits)
                payload[0] = num >> 4
                payload[1] = ((num & 0xF) << 4) | (payload[1] & 0x0F)
                msg = _parse(bytes(payload))
                epoch = {"DF004", "DF034", "DF416", "DF248", "DF427", "DF428", "DF546"}
                seq = [getattr(msg, (o.key if o.typ == "STR" else o.name)) for o in occs
                       if o.role != "derived" and o.key not in epoch and o.key != "DF002"]
                cnt = (msg.NSat, msg.NSig, msg.NCell)
                if ref is None:
                    ref = (identity, seq, cnt)
                elif cnt != ref[2] or len(seq) != len(ref[1]) or any(
                        not R.values_equal(x, y) for x, y in zip(seq, ref[1])):
                    out.bad(f"sibling-mismatch:msm{level}",
                            f"{ref[0]} and {identity} decode the same MSM{level} bits differently")
                    return
        else:
            raise core.Broken(f"unknown sibling family {kind}")
    except core.Broken:
        raise
    except AssertionError as err:
        raise core.Broken(f"sibling harness inconsistent: {err}") from err
    except Exception as err:  # pylint: disable=broad-except
        out.bad("sibling-undecodable", f"{case}: {type(err).__name__}: {err}")
        return
    out.obs = core.h64(repr(sorted(case.items(), key=str)))


@core.guard
def judge(case):
    out = core.Outcome()
    {"static": judge_static, "length": judge_length, "map": judge_map,
     "sibling": judge_sibling}[case["kind"]](case, out)
    if out.obs is None:
        out.obs = core.h64(repr(sorted(case.items(), key=str)))
    return out


# ---------------------------------------------------------------------------
def cases(tier):
    out = []
    _f, std, msm, igs = R.tables()
    for tbl, table in (("std", std), ("msm", msm), ("igs", igs)):
        for key in table:
            if not isinstance(key, str):
                out.append({"kind": "static", "id": repr(key), "table": tbl, "badkey": True})
    for identity, tbl in R.all_identities():
        out.append({"kind": "static", "id": identity, "table": tbl})
    for identity in pinned.IMPLEMENTED:
        if identity not in {i for i, _ in R.all_identities()}:
            out.append({"kind": "static", "id": identity, "table": "std"})
    pf, pd = pinned.load_tables()
    for identity in pd:
        # shapes are enumerated over the PINNED definition
        shp = _pinned_shapes(identity, tier)
        for s in shp:
            out.append({"kind": "length", "id": identity, "shape": s})
        # maps: the all-ones-count shape and the largest moderate shape
        sized = []
        for s in shp:
            lay = pinned_layout(identity, s)
            if lay and lay[1] <= (1600 if tier == "quick" else 4096):
                sized.append((lay[1], s))
        if sized:
            sized.sort(key=lambda t: (t[0], sorted(t[1].items())))
            picks = [sized[-1][1]]
            mid = sized[len(sized) // 2][1]
            if mid not in picks:
                picks.append(mid)
            if tier == "thorough":
                for q in (len(sized) // 4, 3 * len(sized) // 4):
                    if sized[q][1] not in picks:
                        picks.append(sized[q][1])
            for s in picks:
                out.append({"kind": "map", "id": identity, "shape": s})
    modes = ["fp", "zeros", "ones", "alt"]
    for i in range(len(COMPOSITE)):
        width = COMPOSITE[i][1]
        for n in (1, 2):
            for mode in modes:
                out.append({"kind": "sibling", "family": "composite", "index": i, "n": n, "mode": mode})
        # every single bit of the block set / cleared
        for b in range(width):
            out.append({"kind": "sibling", "family": "composite", "index": i, "n": 1,
                        "mode": "zeros", "xor": 1 << b})
            if tier == "thorough":
                out.append({"kind": "sibling", "family": "composite", "index": i, "n": 1,
                            "mode": "ones", "xor": 1 << b})
    for i in range(len(PARALLEL)):
        for n in (1, 2):
            for mode in modes:
                out.append({"kind": "sibling", "family": "parallel", "index": i, "n": n, "mode": mode})
    for level in range(1, 8):
        for s in S.msm_shapes(tier):
            for mode in ("fp", "ones"):
                out.append({"kind": "sibling", "family": "msm", "level": level, "shape": s, "mode": mode})
    return out


_SHAPE_CACHE = {}


def _pinned_shapes(identity, tier):
    """Shape alphabet over the pinned definition (same menus as mc.shapes)."""
    key = (identity, tier)
    if key in _SHAPE_CACHE:
        return _SHAPE_CACHE[key]
    pf, pd = pinned.load_tables()
    orig_def, orig_tab = R.definition, R.tables
    try:
        R.definition = lambda ident: pd.get(ident)
        R.tables = lambda: (pf, {}, {}, {})
        shp = S.enumerate_shapes(identity, tier)
    finally:
        R.definition, R.tables = orig_def, orig_tab
    _SHAPE_CACHE[key] = shp
    return shp


def _work(chunk):
    return core.run_cases(judge, chunk, sample_every=211)


def run(tier, seed, t0):
    allc = cases(tier)
    core.check_deterministic(judge, next(c for c in allc if c["kind"] == "map"))
    core.check_deterministic(judge, next(c for c in allc if c["kind"] == "sibling"))
    # maps are the expensive cases: put them first, one per work item
    maps = [[c] for c in allc if c["kind"] == "map"]
    rest = core.chunks([c for c in allc if c["kind"] != "map"], 60)
    st = core.pmap(_work, maps + rest)
    for k in ("static", "length", "map", "sibling"):
        st.extra[f"cases_{k}"] = sum(1 for c in allc if c["kind"] == k)
    return core.finish(
        "C10", tier, seed, LEVEL, st, RULE, t0,
        assumptions=[
            "mc/pinned_tables.json is a snapshot (S) of the definition structure (key, class, "
            "width, grouping) at the pinned commit plus reviewed fixes; total lengths of the X "
            "identities are cross-checked at run time against hand-written formulas from RTCM "
            "10403.3 / IGS SSR v1 (x_checked counts the cases)",
            "resolutions and descriptions are not pinned",
            "a field transposition inside a type with no sibling and equal widths is only caught "
            "through the snapshot's attribute names",
        ],
    )
