"""
C11 -- socket reads are independent of how the network segments the data.

Part A (E2): explicit-state BFS over the real SocketWrapper on a fake socket:
all recv() answers (any count 1..min(bufsize, remaining), peer close at the
end, TimeoutError / OSError up to a budget) x all client operations read(k),
readline(), drain -- closed to a fixed point, invariants in every transition.
Part B (E1): RTCMReader over a socket.socket subclass for all segmentations of
short streams / all placements of <= b boundaries of longer ones, compared with
the same bytes in a BytesIO.
"""

import io
import itertools

from mc import bfs, core, items
from mc.doubles import FakeSock, NonTermination, SegSocket

LEVEL = "model_checking"
RULE = (
    "Part A: states = canonical (all SocketWrapper instance attributes, socket cursor, faults "
    "used, bytes delivered) reached by BFS over histories of real calls, each rebuilt on fresh "
    "objects; transitions = real read(k)/readline()/drain calls under every environment answer; "
    "the search runs to a fixed point. Part B: executions of the real RTCMReader over a "
    "socket.socket subclass for every composition of the byte stream (short streams) or every "
    "placement of <= b segment boundaries, x bufsize, compared with BytesIO; non-trivial = the "
    "segmentation splits at least one frame / a read spans two recv() results"
)


class Ctx:
    def __init__(self, source, bufsize, max_faults, encoding=0, expect=None):
        self.wire = source
        self.source = source if expect is None else expect  # what the client must see
        self.bufsize = bufsize
        self.max_faults = max_faults
        self.encoding = encoding
        self.sock = None
        self.wrap = None
        self.delivered = 0
        self.violations = []


def make_initial(source, bufsize, max_faults, encoding=0, expect=None):
    def initial(ch):
        from pyrtcm.socketwrapper import SocketWrapper  # pylint: disable=import-outside-toplevel

        ctx = Ctx(source, bufsize, max_faults, encoding, expect)
        ctx.sock = FakeSock(source, chooser=ch, max_faults=max_faults)
        try:
            ctx.wrap = SocketWrapper(ctx.sock, encoding=encoding, bufsize=bufsize)
        except bfs.Pruned:
            raise
        except Exception as err:  # pylint: disable=broad-except
            # the constructor performs the first receive: whatever the socket answers (time-out,
            # OS error, close), a wrapper must come into being
            ctx.violations.append(("wrapper-raises:constructor",
                                   f"SocketWrapper(...) raised {type(err).__name__}: {err} when the "
                                   f"first receive answered {ctx.sock.log[-1:] }"))
            ctx.wrap = None
        return ctx

    return initial


def step(ctx, op, ch, midseen):
    viol = []
    if ctx.wrap is None:  # no wrapper came into being (already reported): nothing to explore
        return viol
    sock, wrap, src = ctx.sock, ctx.wrap, ctx.source
    sock.ch = ch
    before = len(sock.log)
    kind = op[0]
    if midseen is not None and kind != "drain":
        # partial-order style pruning: a configuration met INSIDE an operation (same operation,
        # same wrapper attributes, same socket cursor, same faults seen) has the same futures
        def visit():
            faulted = any(a[0] in ("timeout", "oserror", "close") for a in sock.log[before:])
            got = len(sock.log) - before if kind == "readline" else 0
            key = (op, ctx.delivered, faulted, bfs.snapshot(wrap), sock.pos, sock.nfaults,
                   _line_progress(ctx, before) if kind == "readline" else None, got * 0)
            if key in midseen:
                return True
            midseen.add(key)
            return False

        sock.visit = visit
    else:
        sock.visit = None
    try:
        if kind == "read":
            k = op[1]
            res = wrap.read(k)
            answers = sock.log[before:]
            faulted = any(a[0] in ("timeout", "oserror", "close") for a in answers)
            if not isinstance(res, bytes):
                viol.append(("read-returns-non-bytes", f"read({k}) -> {type(res).__name__}"))
                res = bytes(res)
            if len(res) > k:
                viol.append(("read-returns-more-than-requested", f"read({k}) returned {len(res)} bytes"))
            if len(res) < k and not faulted:
                viol.append(("short-read-without-cause",
                             f"read({k}) returned {len(res)} bytes although no close/timeout/error "
                             f"occurred (recv answers {answers})"))
            if res != src[ctx.delivered : ctx.delivered + len(res)]:
                viol.append(("bytes-lost-duplicated-or-reordered",
                             f"read({k}) returned {res!r} at stream offset {ctx.delivered}, source "
                             f"has {src[ctx.delivered:ctx.delivered + len(res)]!r} (recv answers {answers})"))
            ctx.delivered += len(res)
        elif kind == "readline":
            res = wrap.readline()
            answers = sock.log[before:]
            faulted = any(a[0] in ("timeout", "oserror", "close") for a in answers)
            rest = src[ctx.delivered :]
            if res != rest[: len(res)]:
                viol.append(("bytes-lost-duplicated-or-reordered",
                             f"readline() returned {res!r}, source continues {rest[:len(res) + 2]!r}"))
            elif not faulted:
                idx = rest.find(b"\r\n")
                if idx < 0 or res != rest[: idx + 2]:
                    viol.append(("readline-not-through-crlf",
                                 f"readline() returned {res!r} from {rest!r} without any fault"))
            ctx.delivered += len(res)
        elif kind == "drain":
            sock.ch = None  # default environment: deliver everything, then close
            got = bytearray()
            for _ in range(len(src) + len(ctx.wire) + 4):
                b = wrap.read(1)
                if not b:
                    break
                got += b
            if bytes(got) != src[ctx.delivered :]:
                viol.append(("bytes-lost-duplicated-or-reordered",
                             f"draining after {ctx.delivered} delivered bytes gives {bytes(got)!r}, "
                             f"expected {src[ctx.delivered:]!r}"))
            ctx.delivered += len(got)
    except NonTermination as err:
        viol.append(("nontermination", f"{op}: {err}"))
    except Exception as err:  # pylint: disable=broad-except
        viol.append(("wrapper-raises", f"{op}: {type(err).__name__}: {err}"))
    finally:
        sock.visit = None
    return viol


def _line_progress(ctx, before):
    """readline keeps its partial line in a local: recover it from what was received/buffered."""
    return (ctx.sock.pos, bytes(ctx.wrap.buffer))


def canon_of(ctx):
    if ctx.wrap is None:
        return ("no-wrapper",)
    return (bfs.snapshot(ctx.wrap), ctx.sock.pos, ctx.sock.nfaults, ctx.sock.closed_seen,
            ctx.delivered)


def run_bfs(cfg):
    source, bufsize, ks, faults, lines = cfg["source"], cfg["bufsize"], cfg["ks"], cfg["faults"], cfg["lines"]
    ops = [("read", k) for k in ks] + ([("readline",)] if lines else []) + [("drain",)]
    g = bfs.bfs(make_initial(source, bufsize, faults, cfg.get("encoding", 0), cfg.get("expect")),
                ops, step, canon_of)
    st = core.Stats()
    st.evaluations = g.executions
    st.nontrivial = g.executions
    st.states = len(g.states)
    st.transitions = g.transitions
    st.outcomes = {hash((repr(cfg), o)) for o in g.outcomes}
    st.extra["bfs_runs"] = 1
    st.extra["bfs_executions"] = g.executions
    st.extra["bfs_pruned_executions"] = g.pruned
    st.extra["bfs_fixed_points"] = 1 if g.fixed_point else 0
    st.extra["bfs_max_depth"] = {str(cfg["name"]): g.max_depth}
    if not g.fixed_point:
        st.capped = True
    for sig, msg, hist in g.violations:
        out = core.Outcome()
        out.bad(sig, f"[{cfg['name']}] {msg}; history {_fmt(hist, ops)}")
        case = {"kind": "bfs", "cfg": cfg, "history": [[o, list(c)] for o, c in hist]}
        tmp = core.Stats()
        tmp.add(case, out)
        st.violations += tmp.violations
        for k, v in tmp.extra.items():
            if isinstance(v, dict):
                d = st.extra.setdefault(k, {})
                for kk, vv in v.items():
                    d[kk] = d.get(kk, 0) + vv
    if len(st.samples) < 1 and g.states:
        last = list(g.states.values())[-1]
        st.samples.append({"kind": "bfs", "cfg": cfg, "history": [[o, list(c)] for o, c in last],
                           "readable": _fmt(last, ops)})
    return st


def _fmt(hist, ops):
    return " ; ".join(f"{'init' if o == 'init' else ops[o]}<-env{list(c)}" for o, c in hist)


def judge_bfs_case(case, out):
    """Replay one recorded history with plain calls."""
    from mc.explore import Chooser  # pylint: disable=import-outside-toplevel

    cfg = case["cfg"]
    ops = [("read", k) for k in cfg["ks"]] + ([("readline",)] if cfg["lines"] else []) + [("drain",)]
    ctx = None
    for opi, choices in case["history"]:
        ch = Chooser(choices)
        if opi == "init":
            ctx = make_initial(cfg["source"], cfg["bufsize"], cfg["faults"], cfg.get("encoding", 0),
                               cfg.get("expect"))(ch)
        else:
            for sig, msg in step(ctx, tuple(ops[opi]), ch, None):
                out.bad(sig, msg)


# ---------------------------------------------------------------------------
# Part B: reader over sockets
# ---------------------------------------------------------------------------
def reader_msgs(stream_obj, bufsize=4096):
    from pyrtcm import RTCMReader  # pylint: disable=import-outside-toplevel

    errs = []
    rdr = RTCMReader(stream_obj, quitonerror=1, errorhandler=errs.append, bufsize=bufsize)
    out = []
    try:
        for raw, parsed in rdr:
            out.append((bytes(raw), str(parsed)))
            if len(out) > 64:
                break
    except NonTermination:
        out.append(("nonterm", ""))
    except Exception as err:  # pylint: disable=broad-except
        out.append(("exc", f"{type(err).__name__}: {err}"))
    return out, len(errs)


def judge_reader_case(case, out):
    data, segs, bufsize = case["data"], case["segs"], case["bufsize"]
    ref, referr = reader_msgs(io.BytesIO(data))
    if case.get("sock_kind") == "readable":
        from mc.doubles import ReadableSegSocket  # pylint: disable=import-outside-toplevel

        sock = ReadableSegSocket(data, segs)
    else:
        sock = SegSocket(data, segs)
    try:
        got, goterr = reader_msgs(sock, bufsize)
    finally:
        sock.close()
    if got != ref:
        out.bad("socket-differs-from-file",
                f"{case.get('name')}: segments {segs} bufsize {bufsize}: {len(got)} messages over the "
                f"socket, {len(ref)} over a file of the same bytes; first difference at "
                f"{next((i for i, (a, b) in enumerate(zip(got, ref)) if a != b), min(len(got), len(ref)))}")
    out.nontrivial = len(segs) > 0 or bufsize < len(data)
    out.extra["reader_executions"] = 1
    out.extra["reader_messages_compared"] = len(got)
    out.obs = core.h64(repr((case.get("name"), segs, bufsize, len(got))))


def judge_ossock(case, out):
    """
    A GENUINE OS socket (socket.socketpair(): type(sock) is socket.socket, not a subclass) in
    non-blocking mode or with a short time-out: the peer sends the stream in the given segments, and
    after each segment the wrapper is drained with read(k) until it returns nothing -- so every
    segment boundary is followed by a receive that FAULTS (BlockingIOError / TimeoutError) and reading
    resumes when more data has arrived.  Single-threaded and deterministic: data written to one end
    of a socketpair is readable at the other end at once.
    """
    import socket as _socket  # pylint: disable=import-outside-toplevel

    from pyrtcm.socketwrapper import SocketWrapper  # pylint: disable=import-outside-toplevel

    src, segs, k, bufsize = case["data"], case["segs"], case["k"], case["bufsize"]
    a, b = _socket.socketpair()
    try:
        if case.get("mode") == "timeout":
            b.settimeout(0.0005)
        else:
            b.setblocking(False)
        got = bytearray()
        if case.get("early"):
            wrap = SocketWrapper(b, bufsize=bufsize)  # its first receive finds nothing
        pos = 0
        wrap_made = bool(case.get("early"))
        for n in segs + [len(src)]:
            part = src[pos:pos + n]
            pos += len(part)
            if part:
                a.sendall(part)
            if pos >= len(src):
                a.close()
            if not wrap_made:
                wrap = SocketWrapper(b, bufsize=bufsize)
                wrap_made = True
            for _ in range(4 * len(src) + 16):
                d = wrap.read(k)
                if not d:
                    break
                got += d
            if pos >= len(src):
                break
        for _ in range(4 * len(src) + 16):  # what a read(k) larger than the rest has left behind
            d = wrap.read(1)
            if not d:
                break
            got += d
        if bytes(got) != src:
            out.bad("bytes-lost-duplicated-or-reordered:os-socket",
                    f"{case['name']}: peer sent {len(src)} bytes in segments {segs}; read({k}) with bufsize "
                    f"{bufsize} over a genuine {case.get('mode', 'non-blocking')} OS socket delivered {len(got)} "
                    f"bytes: {bytes(got)!r} instead of {src!r}")
    except Exception as err:  # pylint: disable=broad-except
        out.bad("wrapper-raises", f"{case['name']}: {type(err).__name__}: {str(err)[:100]}")
    finally:
        try:
            a.close()
        except OSError:
            pass
        b.close()
    out.nontrivial = True
    out.obs = core.h64(repr(sorted(case.items(), key=str)))


def judge_longhaul(case, out):
    """
    Deep histories: one wrapper consumes a long stream (beyond any internal 64 KiB threshold)
    under a cyclic pattern of read sizes and receive sizes; every byte is compared.
    """
    from pyrtcm.socketwrapper import SocketWrapper  # pylint: disable=import-outside-toplevel

    n, bufsize = case["n"], case["bufsize"]
    src = bytes(((i * 131) ^ (i >> 8) ^ (i >> 16)) & 0xFF for i in range(n))
    segs = case["segs"]
    script = []
    tot, k = 0, 0
    while tot < n:
        script.append(segs[k % len(segs)])
        tot += min(segs[k % len(segs)], bufsize)
        k += 1
    sock = FakeSock(src, script=script, budget=4 * n + 64)
    try:
        wrap = SocketWrapper(sock, bufsize=bufsize)
        pos, k, reads = 0, 0, case["reads"]
        while pos < n:
            want = min(reads[k % len(reads)], n - pos)
            k += 1
            got = wrap.read(want)
            if got != src[pos : pos + want]:
                where = next((i for i in range(min(len(got), want)) if got[i] != src[pos + i]),
                             min(len(got), want))
                out.bad("bytes-lost-duplicated-or-reordered:long-stream",
                        f"{case['name']}: read({want}) at stream offset {pos} returned {len(got)} "
                        f"bytes, first wrong byte at offset {pos + where}")
                break
            pos += want
        out.extra["longhaul_bytes"] = pos
    except NonTermination as err:
        out.bad("nontermination", f"{case['name']}: {err}")
    except Exception as err:  # pylint: disable=broad-except
        out.bad("wrapper-raises", f"{case['name']}: {type(err).__name__}: {str(err)[:100]}")
    out.obs = core.h64(repr(sorted(case.items(), key=str)))


def judge_instances(case, out):
    """
    Several wrappers in one process, one after another and interleaved, each over its own
    source: every one must deliver exactly its own stream.  (The BFS rebuilds states by
    replaying histories on fresh wrappers, so it relies on this independence; it is therefore
    checked first.)
    """
    from pyrtcm.socketwrapper import SocketWrapper  # pylint: disable=import-outside-toplevel

    enc = case.get("encoding", 0)
    srcs = case["sources"]
    try:
        # one after another
        for k, (wire, expect) in enumerate(srcs):
            sock = FakeSock(wire, script=[3, 1] if k % 2 else [])
            wrap = SocketWrapper(sock, encoding=enc, bufsize=case.get("bufsize", 4096))
            got = bytearray()
            for _ in range(len(wire) + 8):
                b = wrap.read(1 if k % 2 else 3) or wrap.read(1)
                if not b:
                    break
                got += b
            if bytes(got) != expect:
                out.bad("wrapper-instances-interfere",
                        f"wrapper #{k + 1} created in this process delivered {bytes(got)[:24]!r}.. "
                        f"({len(got)} B) for a peer stream of {expect[:24]!r}.. ({len(expect)} B)")
                return
        # interleaved: all alive at once, advanced round-robin
        wraps = []
        for wire, expect in srcs:
            sock = FakeSock(wire, script=[2, 5])
            wraps.append((SocketWrapper(sock, encoding=enc, bufsize=7), expect, bytearray()))
        for _ in range(max(len(w) for w, _e in srcs) + 8):
            for wrap, _expect, got in wraps:
                got += wrap.read(1)
        for k, (_wrap, expect, got) in enumerate(wraps):
            if bytes(got) != expect:
                out.bad("wrapper-instances-interfere",
                        f"interleaved wrapper #{k + 1} delivered {bytes(got)[:24]!r}.. for {expect[:24]!r}..")
                return
    except NonTermination as err:
        out.bad("nontermination", f"instances: {err}")
    except Exception as err:  # pylint: disable=broad-except
        out.bad("wrapper-raises", f"instances: {type(err).__name__}: {err}")
    out.obs = core.h64(repr(srcs))


@core.guard
def judge(case):
    out = core.Outcome()
    if case["kind"] == "instances":
        judge_instances(case, out)
        return out
    if case["kind"] == "bfs":
        judge_bfs_case(case, out)
    elif case["kind"] == "longhaul":
        judge_longhaul(case, out)
    elif case["kind"] == "ossock":
        judge_ossock(case, out)
    else:
        judge_reader_case(case, out)
    return out


def compositions(n):
    """All compositions of n as lists of segment lengths."""
    for mask in range(1 << (n - 1)):
        segs, run = [], 1
        for i in range(n - 1):
            if mask >> i & 1:
                segs.append(run)
                run = 1
            else:
                run += 1
        segs.append(run)
        yield segs


def placements(n, b):
    """All segmentations with at most b boundaries."""
    for r in range(0, b + 1):
        for cuts in itertools.combinations(range(1, n), r):
            prev, segs = 0, []
            for c in cuts:
                segs.append(c - prev)
                prev = c
            segs.append(n - prev)
            yield segs


def _work(item):
    kind, payload = item
    if kind == "bfs":
        return run_bfs(payload)
    if kind == "longhaul":
        st = core.Stats()
        for case in payload:
            st.add(case, judge(case), keep_sample=len(st.samples) < 1)
        return st
    st = core.Stats()
    name, data, mode, arg, bufsizes = payload
    gen = compositions(len(data)) if mode == "comp" else placements(len(data), arg)
    if mode == "comp" and arg is not None:
        lo, hi = arg
        gen = itertools.islice(gen, lo, hi)
    for k, segs in enumerate(gen):
        for bs in bufsizes:
            case = {"kind": "reader", "name": name, "data": data, "segs": segs[:-1], "bufsize": bs}
            st.add(case, judge(case), keep_sample=(k == 5 and bs == bufsizes[0]))
            if k % 4 == 0 and bs == bufsizes[0]:
                # a socket kind with file-like methods of its own (TLS sockets have read()): the
                # reader must go through its wrapper all the same
                case = dict(case, sock_kind="readable")
                st.add(case, judge(case))
    return st


def plan(tier):
    work = []
    if tier == "quick":
        n, bufs, ks, faults = 12, (1, 2, 3, 7, 4096), (0, 1, 2, 3, 5, 12), 2
    else:
        n, bufs, ks, faults = 24, (1, 2, 3, 5, 7, 16, 4096), (0, 1, 2, 3, 5, 7, 24, 30), 3
    src = bytes(range(1, n + 1))
    line_src = b"a\rb\nc\r\nd\r\r\ne\r\n" if tier == "quick" else b"a\rb\nc\r\n\r\nde\r\n\r\r\nf\n\r\r\r\ng"
    for bs in bufs:
        work.append(("bfs", {"name": f"bytes n={n} bufsize={bs}", "source": src, "bufsize": bs,
                             "ks": list(ks), "faults": faults, "lines": False}))
        work.append(("bfs", {"name": f"lines bufsize={bs}", "source": line_src, "bufsize": bs,
                             "ks": [1, 2], "faults": faults, "lines": True}))
    # deep histories of one wrapper (70 000 / 200 000 bytes) and large reads fed byte by byte
    lh = []
    for n in ((70000,) if tier == "quick" else (70000, 140000, 200000)):
        for bufsize in (4096, 1000, 65536, 7):
            for reads in ([25], [1, 2, 3, 5, 25, 1000, 4096, 8191], [4096], [65536], [1]):
                if reads == [1] and n > 70000:
                    continue
                for segs in ([bufsize], [1, 1500, 4096, 17]):
                    lh.append({"kind": "longhaul", "name": f"n={n} bufsize={bufsize} reads={reads} "
                               f"segs={segs}", "n": n, "bufsize": bufsize, "reads": reads, "segs": segs})
    # receive buffers far larger than the default: one receive delivers 100 000 / 250 000 bytes at once
    for bufsize, n in ((100000, 250000), (250000, 250001), (1 << 20, 300000)):
        for reads in ([25], [1000, 3, 70000], [n]):
            for segs in ([bufsize], [70000, 1, 65536, 65537]):
                lh.append({"kind": "longhaul", "name": f"n={n} bufsize={bufsize} reads={reads} segs={segs}",
                           "n": n, "bufsize": bufsize, "reads": reads, "segs": segs})
    for k in (1023, 4096, 70000):
        lh.append({"kind": "longhaul", "name": f"read({k}) over 1-byte receives", "n": k + 10,
                   "bufsize": 1, "reads": [k, 10], "segs": [1]})
        lh.append({"kind": "longhaul", "name": f"read({k}) over 1-byte segments", "n": k + 10,
                   "bufsize": 4096, "reads": [k, 10], "segs": [1]})
    for ch in core.chunks(lh, 3):
        work.append(("longhaul", ch))
    # genuine OS sockets with a fault after every segment: all compositions of a 10-byte stream
    osrc = bytes(range(65, 75))
    osc = []
    for segs in compositions(len(osrc)):
        for bufsize in (1, 3, 4096):
            for k in (1, 3):
                osc.append({"kind": "ossock", "name": "socketpair", "data": osrc, "segs": list(segs[:-1]),
                            "k": k, "bufsize": bufsize, "early": len(segs) % 2 == 0})
    for segs in ([3, 4], [1, 1, 1, 1, 1, 1, 1, 1, 1], [9], []):
        for bufsize in (2, 4096):
            osc.append({"kind": "ossock", "name": "socketpair/timeout", "data": osrc, "segs": segs, "k": 2,
                        "bufsize": bufsize, "mode": "timeout", "early": True})
    for ch in core.chunks(osc, 200):
        work.append(("longhaul", ch))
    # Part B
    alpha = items.wellformed("quick")
    seqs = []
    for d in (1, 2):
        for combo in itertools.product(alpha, repeat=d):
            if any(i["kind"] == "frame" for i in combo):
                seqs.append(("+".join(i["name"] for i in combo), b"".join(i["data"] for i in combo)))
    comp_max = 14 if tier == "quick" else 18
    bmax = 2 if tier == "quick" else 3
    bufsizes = (4096, 1, 2, 5)
    for name, data in seqs:
        if len(data) <= comp_max:
            total = 1 << (len(data) - 1)
            step_ = 4096
            for lo in range(0, total, step_):
                work.append(("reader", (name, data, "comp", (lo, lo + step_), bufsizes)))
        else:
            work.append(("reader", (name, data, "place", bmax if len(data) <= 64 else bmax - 1,
                                    bufsizes[:2] if len(data) > 64 else bufsizes)))
    return work


def run(tier, seed, t0):
    work = plan(tier)
    core.check_deterministic(judge, {"kind": "reader", "name": "x",
                                     "data": items.concat(["F2", "nmeaG", "F19"]),
                                     "segs": [3, 9, 1], "bufsize": 2})
    inst_case = {"kind": "instances", "sources": [
        (bytes(range(1, 30)), bytes(range(1, 30))), (b"abcdefghij" * 3, b"abcdefghij" * 3),
        (bytes(range(200, 240)), bytes(range(200, 240))), (b"\xd3\x00\x02xyzzy", b"\xd3\x00\x02xyzzy")]}
    inst = core._in_child(lambda: judge(inst_case).violations)  # pylint: disable=protected-access
    if inst:
        # wrappers are not independent of each other: the replay-based BFS would be meaningless
        st = core.Stats()
        o = core.Outcome()
        o.violations = list(inst)
        st.add(inst_case, o)
        st.capped = True
        st.notes.append("exploration skipped: wrapper instances interfere with each other, so neither "
                        "the replay-based BFS nor long sequences of fresh wrappers are meaningful")
    else:
        st = core.pmap(_work, work)
        st.add(inst_case, core.Outcome(obs=1), keep_sample=False)
    return core.finish(
        "C11", tier, seed, LEVEL, st, RULE, t0,
        assumptions=[
            "a fake socket keeps undelivered data across a timeout / OS error, as a real one does",
            "source length, read sizes and fault budget are bounded (see samples); the BFS reached "
            "a fixed point for every configuration unless 'capped' is true",
            "bare-LF-terminated lines are outside the alphabet of Part B (file readline and the "
            "wrapper's CRLF readline legitimately differ there)",
        ],
    )
