"""
C18 -- MSM and harmonic-coefficient array helpers agree with the flat attributes.

Space: all 49 MSM types x mask shapes (incl. 4x32 = 128 cells, 64 satellites);
4076_201 with 1..4 layers x all degree/order pairs (order <= degree; up to
153+136 coefficients per layer -> three-digit indices); every other corpus
item; every number 1070..1229 that is not an implemented MSM type; 4076
sub-types other than 201.
"""

import re

from mc import core, corpus, msmref, pinned
from mc import refmodel as R

LEVEL = "exploration"
RULE = (
    "case = one message (MSM identity x mask shape; 4076_201 x layers/degree/order; any other "
    "identity incl. reserved MSM numbers and unknown 4076 sub-types) given to parse_msm and "
    "parse_4076_201; results compared entry by entry with the indexed attributes found on the "
    "real message (vars(msg)), counts with the reference model; non-trivial = the helper must "
    "return data (MSM / 4076_201) or the identity is reserved/unknown; distinct by construction"
)
SATKEYS = ("PRN", "DF397", "DF398", "DF399", "DF419", "ExtSatInfo")
CELLKEYS = ("CELLPRN", "CELLSIG", "DF400", "DF401", "DF402", "DF403", "DF404", "DF405", "DF406",
            "DF407", "DF408", "DF420")


def _indexed(msg, keys):
    """{index: {key: value}} for attributes key_NN present on the message."""
    out = {}
    pat = re.compile(r"^(.+)_(\d{2,})$")
    for name, val in vars(msg).items():
        m = pat.match(name)
        if m and m.group(1) in keys:
            out.setdefault(int(m.group(2)), {})[m.group(1)] = val
    return out


def _check_msm(msg, ident, base, ref, tag, out, parse_msm):
    try:
        res = parse_msm(msg)
    except Exception as err:  # pylint: disable=broad-except
        out.bad("parse_msm-raises", f"{tag}: {type(err).__name__}: {err}")
        return None
    if not isinstance(res, tuple) or len(res) != 3:
        out.bad("parse_msm-shape", f"{tag}: returned {type(res).__name__}")
        return None
    meta, sats, cells = res
    want_meta = {"identity": ident, "station": msg.DF003,
                 "epoch": getattr(msg, pinned.MSM_EPOCH[base]), "sats": ref["nsat"],
                 "cells": ref["ncell"]}
    for k, v in want_meta.items():
        if meta.get(k) != v:
            out.bad(f"meta-wrong:{k}", f"{tag}: meta[{k!r}]={meta.get(k)!r}, expected {v!r}")
    for label, entries, keys, n in (("sat", sats, SATKEYS, ref["nsat"]),
                                    ("cell", cells, CELLKEYS, ref["ncell"])):
        want = _indexed(msg, keys)
        if len(entries) != n:
            out.bad(f"{label}-entries-count", f"{tag}: {len(entries)} {label} entries, expected {n}")
            continue
        if sorted(want) != list(range(1, n + 1)):
            raise core.Broken(f"{tag}: message has {label} indices {sorted(want)[:5]}.. for n={n}")
        for i in range(1, n + 1):
            if entries[i - 1] != want[i]:
                out.bad(f"{label}-entry-differs",
                        f"{tag}: {label} entry {i} = {entries[i - 1]!r} but indexed attributes are {want[i]!r}")
                break
    return res


_OTHER = {}


def _other_messages():
    """One fixed message per MSM identity (another station, epoch, masks) for interleaving."""
    from pyrtcm import RTCMMessage  # pylint: disable=import-outside-toplevel

    if not _OTHER:
        for n in pinned.MSM_NUMBERS:
            try:
                pl, _o, _n = R.build(str(n), {"DF394": (1 << 50) | (1 << 3), "DF395": 1 << 20, "DF396": 0b11,
                                              "DF003": 2222}, "ones")
                _OTHER[str(n)] = RTCMMessage(payload=pl)
            except Exception:  # pylint: disable=broad-except
                pass
    return _OTHER


def judge_msm(case, out):
    _other_messages()
    from pyrtcm import RTCMMessage, parse_msm  # pylint: disable=import-outside-toplevel

    ident = case["id"]
    base = int(ident) // 10
    try:
        payload, _o, _n = R.build(ident, case["shape"], case.get("mode", "fp"))
    except R.TooLong:
        out.nontrivial = False
        return
    ref = msmref.decode_masks(base, case["shape"]["DF394"], case["shape"]["DF395"],
                              case["shape"]["DF396"])
    # the same payload as decoded under each label option, one after the other (a consumer per
    # option), each result scribbled over by its caller before the next call
    import copy  # pylint: disable=import-outside-toplevel

    kept = None  # (result object, deep copy taken when it was returned, tag)
    for lm in (1, 2, 0, 2, 1):
        msg = RTCMMessage(payload=payload, labelmsm=lm)
        tag = f"{ident} {case['shape']}" + (f" labelmsm={lm}" if lm != 1 else "") + \
            (f" values={case['mode']}" if case.get("mode") else "")
        res = _check_msm(msg, ident, base, ref, tag, out, parse_msm)
        if out.violations:
            return
        # a result the caller still HOLDS must not be changed by a later call (the previous result
        # was kept untouched until now)
        if kept is not None and kept[0] != kept[1]:
            out.bad("earlier-result-changed-by-later-call",
                    f"{kept[2]}: the result returned earlier has changed after a later parse_msm() call "
                    f"(metadata now {str(kept[0][0])[:120]})")
            return
        other = _OTHER.get(ident)
        if other is not None and lm == 1:
            # ... nor by a call on ANOTHER message of the same constellation
            snap = copy.deepcopy(res)
            parse_msm(other)
            if res != snap:
                out.bad("earlier-result-changed-by-later-call",
                        f"{tag}: the result changed when parse_msm() was called on another message of "
                        f"the same constellation")
                return
        if kept is not None:
            prev = kept[0]
            try:  # what a caller does with ITS (earlier) result must not reach later results
                prev[0].clear()
                for lst in prev[1:]:
                    for e in lst:
                        if isinstance(e, dict):
                            e.clear()
                    if isinstance(lst, list):
                        lst.clear()
            except Exception:  # pylint: disable=broad-except
                pass
        kept = (res, copy.deepcopy(res), tag)
    out.obs = core.h64(repr((ident, sorted(case["shape"].items()))))


def _judge_harm_once(case, out, attempt):
    from pyrtcm import RTCMMessage, parse_4076_201  # pylint: disable=import-outside-toplevel

    payload, occs, _n = R.build("4076_201", case["shape"], "fp")
    msg = RTCMMessage(payload=payload)
    tag = f"4076_201 {case['shape']}" + (" (second call, first result modified by caller)" if attempt else "")
    for _ in range(attempt):
        try:
            prev = parse_4076_201(msg)
            for entry in prev.values():
                for v in entry.values():
                    if isinstance(v, list):
                        v.clear()
            prev.clear()
        except Exception:  # pylint: disable=broad-except
            pass
    try:
        res = parse_4076_201(msg)
    except Exception as err:  # pylint: disable=broad-except
        out.bad("parse_4076_201-raises", f"{tag}: {type(err).__name__}: {err}")
        return
    layers = case["shape"].get("IDF035", 0) + 1
    if not isinstance(res, dict) or len(res) != layers:
        out.bad("layer-count", f"{tag}: {len(res) if isinstance(res, dict) else res!r} layers, expected {layers}")
        return
    for li, key in enumerate(sorted(res), 1):
        entry = res[key]
        scal = [v for v in entry.values() if not isinstance(v, list)]
        lists = [v for v in entry.values() if isinstance(v, list)]
        cos = [o.value for o in occs if o.key == "IDF039" and o.idx[0] == li]
        sin = [o.value for o in occs if o.key == "IDF040" and o.idx[0] == li]
        height = next(o.value for o in occs if o.key == "IDF036" and o.idx[0] == li)
        if len(scal) != 1 or len(lists) != 2:
            out.bad("layer-shape", f"{tag}: layer {li} entry has {len(scal)} scalars, {len(lists)} lists")
            return
        if not R.values_equal(scal[0], height):
            out.bad("layer-height", f"{tag}: layer {li} height {scal[0]!r} != {height!r}")
        for nm, got, want in (("cosine", lists[0], cos), ("sine", lists[1], sin)):
            if len(got) != len(want) or any(not R.values_equal(a, b) for a, b in zip(got, want)):
                out.bad(f"coefficients-differ:{nm}",
                        f"{tag}: layer {li} {nm}: {len(got)} values, decoded {len(want)}; first "
                        f"difference at {next((j for j, (a, b) in enumerate(zip(got, want)) if not R.values_equal(a, b)), min(len(got), len(want)))}")
                break
    out.extra["max_coeff_index"] = 0
    out.obs = core.h64(repr(sorted(case["shape"].items())))


def judge_harm(case, out):
    _judge_harm_once(case, out, 0)
    if not out.violations:
        _judge_harm_once(case, out, 1)


def judge_other(case, out):
    from pyrtcm import RTCMMessage, parse_4076_201, parse_msm  # pylint: disable=import-outside-toplevel

    try:
        msg = RTCMMessage(payload=case["payload"])
    except Exception:  # pylint: disable=broad-except
        out.nontrivial = False
        return
    ident = msg.identity
    is_msm = ident in [str(n) for n in pinned.MSM_NUMBERS]
    for fn, applies in ((parse_msm, is_msm), (parse_4076_201, ident == "4076_201")):
        if applies:
            continue
        try:
            res = fn(msg)
            if res is not None:
                out.bad(f"{fn.__name__}-returns-data-for-other",
                        f"{fn.__name__}({ident}) returned {type(res).__name__}, expected None")
        except Exception as err:  # pylint: disable=broad-except
            kind = "reserved-msm" if ident.isdigit() and 1070 <= int(ident) <= 1229 else "other"
            out.bad(f"{fn.__name__}-raises:{kind}",
                    f"{fn.__name__}(message {ident}) raises {type(err).__name__}: {err}")
    out.nontrivial = not is_msm
    out.obs = core.h64(case["payload"])


@core.guard
def judge(case):
    out = core.Outcome()
    {"msm": judge_msm, "harm": judge_harm, "other": judge_other}[case["kind"]](case, out)
    return out


def cases(tier):
    out = []
    shapes = [
        {"DF394": 0, "DF395": 0, "DF396": 0},
        {"DF394": 1 << 63, "DF395": 1 << 30, "DF396": 1},
        {"DF394": 1 << 63, "DF395": 1 << 30, "DF396": 0},
        {"DF394": (1 << 63) | (1 << 60) | 1, "DF395": (1 << 30) | (1 << 16), "DF396": 0b101101},
        {"DF394": msmref.first_n(64, 4, 3), "DF395": (1 << 32) - 1, "DF396": (1 << 128) - 1},
        {"DF394": msmref.first_n(64, 4, 3), "DF395": (1 << 32) - 1,
         "DF396": ((1 << 128) - 1) & ~int("1000000" * 18, 2)},  # 110 cells: fits up to MSM6
        {"DF394": (1 << 64) - 1, "DF395": 1 << 9, "DF396": (1 << 64) - 1},
        {"DF394": msmref.first_n(64, 12, 2), "DF395": msmref.first_n(32, 9, 1),
         "DF396": int("110" * 36, 2)},
        # fewer cells than satellites (but not none)
        {"DF394": msmref.first_n(64, 3, 1), "DF395": 1 << 30, "DF396": 0b010},
        {"DF394": msmref.first_n(64, 5, 2), "DF395": (1 << 30) | (1 << 9), "DF396": 0b0100100001},
        {"DF394": (1 << 64) - 1, "DF395": 1 << 9, "DF396": 1 << 20},
    ]
    if tier == "thorough":
        shapes += [
            {"DF394": msmref.first_n(64, 8), "DF395": msmref.first_n(32, 8), "DF396": (1 << 64) - 1},
            {"DF394": msmref.first_n(64, 3, 60), "DF395": msmref.first_n(32, 3, 29), "DF396": 0b010101010},
            {"DF394": (1 << 64) - 1, "DF395": 3, "DF396": (1 << 128) - 1 - (1 << 77)},
        ]
    for n in pinned.MSM_NUMBERS:
        for s in shapes:
            out.append({"kind": "msm", "id": str(n), "shape": s})
        # every field zero (epoch 0: the first millisecond of the week / day) and every field at its
        # all-ones value, on the small shapes
        for s in shapes[:4] + [shapes[8]]:
            for mode in ("zeros", "ones"):
                out.append({"kind": "msm", "id": str(n), "shape": s, "mode": mode})
    # 4076_201
    for layers in (1, 2, 3, 4):
        degs = range(16) if layers == 1 else ((0, 3) if tier == "quick" else (0, 1, 3, 5))
        for d in degs:
            for o in range(d + 1):
                if layers > 1 and o not in (0, d):
                    continue
                shape = {"IDF035": layers - 1, "IDF037": d, "IDF038": o}
                if layers > 1:
                    shape[f"IDF037_{layers:02d}"] = max(0, d - 1)
                    shape[f"IDF038_{layers:02d}"] = 0
                try:
                    R.build("4076_201", shape, "fp")
                except R.TooLong:
                    continue
                out.append({"kind": "harm", "shape": shape})
    # everything else
    for it in corpus.build(tier):
        out.append({"kind": "other", "payload": it["payload"], "name": it["name"]})
    fp = bytes((31 * i + 3) & 0xFF for i in range(30))
    for num in range(4096):
        if num not in pinned.MSM_NUMBERS and num != 4076:
            out.append({"kind": "other", "payload": (num << 4).to_bytes(2, "big") + fp, "name": str(num)})
    for sub in range(256):
        if sub != 201:
            v, _ = pinned.header(4076, sub, 0)
            out.append({"kind": "other", "payload": (v << 1).to_bytes(3, "big") + b"\x00" * 40,
                        "name": f"4076_{sub:03d}"})
    return out


def _work(chunk):
    return core.run_cases(judge, chunk, sample_every=301)


def run(tier, seed, t0):
    allc = cases(tier)
    core.check_deterministic(judge, allc[3])
    st = core.pmap(_work, core.chunks(allc, 100))
    # the same cases under other interpreter configurations (-O, -OO, -W error, -X dev)
    core.interpreter_modes("C18", allc[:: max(1, len(allc) // 300)], st)
    # single-process history sweeps: the helpers are called on all MSM / 4076_201 cases again in
    # one process in three orders (GLONASS first, reversed, interleaved), so that state kept by a
    # helper between calls meets a message of another family
    seq = [c for c in allc if c["kind"] in ("msm", "harm")]
    small = [c for c in seq if c["kind"] == "harm" or R.popcount(c["shape"]["DF396"]) <= 6]
    glo_first = sorted(small, key=lambda c: (0 if c.get("id", "")[:3] == "108" else 1))
    inter = [c for pair in zip(small, reversed(small)) for c in pair]
    nseq = 0
    for order in (glo_first, list(reversed(small)), inter):
        for c in order:
            st.add(c, judge(c))
            nseq += 1
    st.extra["single_process_history_sweep_cases"] = nseq
    for k in ("msm", "harm", "other"):
        st.extra[f"cases_{k}"] = sum(1 for c in allc if c["kind"] == k)
    return core.finish(
        "C18", tier, seed, LEVEL, st, RULE, t0,
        assumptions=[
            "satellite-level and cell-level field sets are those of RTCM 10403.3 MSM1-7",
            "the 'gnss' name in the metadata is not compared (the property does not fix its spelling)",
            "for 4076_201 the entry of a layer is taken structurally: one scalar (height) and two "
            "lists (cosine first, sine second), whatever the dictionary keys are called",
        ],
    )
