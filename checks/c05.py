"""
C05 -- a damaged frame costs exactly that frame; error modes differ only in reporting.

Space: streams of k distinct valid frames x every subset chosen for damage x
damage pattern (every single bit behind the 3-byte header; adjacent and
first/last pairs; all 3-bit patterns inside the CRC trailer; bursts of length
2..24 at every start, all-ones and endpoints-only) x {ignore, log, raise} x
{user handler, logger}.
"""

import io
import itertools
import logging

from mc import core, items, pinned

LEVEL = "fault_enumeration"
RULE = (
    "execution = (k valid frames, xor damage mask per damaged frame confined to payload+CRC bytes, "
    "error mode, handler kind) iterated with next() on ONE real RTCMReader until StopIteration; "
    "damage patterns are all within CRC-24Q's guaranteed-detectable classes; non-trivial = at "
    "least one frame damaged; distinct = all cases differ by construction"
)


class _FalsyCollector(list):
    """A user error handler that is a callable object which happens to be falsy while empty."""

    def __call__(self, err):
        self.append(err)


class _Sink:
    """A user object whose bound method is the handler; nothing else refers to the object."""

    def __init__(self, store):
        self.store = store

    def put(self, err):
        self.store.append(err)


class _Count(logging.Handler):
    def __init__(self):
        super().__init__(level=logging.DEBUG)
        self.records = []

    def emit(self, record):
        self.records.append(record)


def patterns(nbits):
    """XOR masks over nbits (bit 0 = first bit behind the header), simplest first."""
    out = []
    for i in range(nbits):
        out.append(("bit", 1 << (nbits - 1 - i)))
    for i in range(nbits - 1):
        out.append(("adj", (1 << (nbits - 1 - i)) | (1 << (nbits - 2 - i))))
    out.append(("ends", (1 << (nbits - 1)) | 1))
    for a, b, c in itertools.combinations(range(24), 3):
        out.append(("crc3", (1 << a) | (1 << b) | (1 << c)))
    for ln in range(2, 25):
        for start in range(0, nbits - ln + 1):
            ones = ((1 << ln) - 1) << (nbits - start - ln)
            ends = ((1 << (ln - 1)) | 1) << (nbits - start - ln)
            out.append(("burst1", ones))
            if ln > 2:
                out.append(("burstE", ends))
    # damage of the trailer whose SYNDROME is a special value (all ones, one bit, ...): any pattern
    # confined to the 24 trailer bits is a burst of span <= 24
    for syn in (0xFFFFFF, 0x000001, 0x800000, 0x7FFFFF, 0xFFFFFE, 0x864CFB, 0xD30000, 0x0D0A00):
        out.append(("syn", int.from_bytes(pinned.solve3(syn), "big")))
    seen, uniq = set(), []
    for kind, mask in out:
        if mask not in seen:
            seen.add(mask)
            uniq.append((kind, mask))
    return uniq


def apply(frame, mask):
    body = int.from_bytes(frame[3:], "big") ^ mask
    return frame[:3] + body.to_bytes(len(frame) - 3, "big")


@core.guard
def judge(case):
    from pyrtcm import RTCMReader  # pylint: disable=import-outside-toplevel
    from pyrtcm.exceptions import RTCMParseError  # pylint: disable=import-outside-toplevel

    out = core.Outcome()
    frames = case["frames"]
    damage = {int(k): v for k, v in case["damage"].items()}
    q, use_handler = case["q"], case["handler"]
    sent = [apply(f, damage[i]) if i in damage else f for i, f in enumerate(frames)]
    for i in damage:
        core.require(sent[i] != frames[i] and sent[i][:3] == frames[i][:3], "C05 damage pattern")
        if pinned.crc24q_table(sent[i]) == 0:
            raise core.Broken("damage pattern is not detectable by the reference CRC")
    good = [f for i, f in enumerate(frames) if i not in damage]
    herrs = _FalsyCollector() if use_handler == "falsy" else []
    counter = _Count()
    lg = logging.getLogger()  # root: whichever logger the library uses, its records arrive here
    lg.addHandler(counter)
    old_level = lg.level
    lg.setLevel(logging.DEBUG)
    # the application's logging configuration is part of the environment: it may silence the
    # library's logger, which must not silence the USER's error handler
    logcfg = case.get("logcfg")
    libs = [logging.getLogger(n) for n in ("pyrtcm", "pyrtcm.rtcmreader")]
    old_libs = [l.level for l in libs]
    if logcfg == "lib-critical":
        libs[0].setLevel(logging.CRITICAL)
    elif logcfg == "reader-off":
        libs[1].setLevel(logging.CRITICAL + 10)
    elif logcfg == "disabled":
        logging.disable(logging.CRITICAL)
    elif logcfg == "root-critical":
        lg.setLevel(logging.CRITICAL)
    closer = None
    kind = case.get("stream", "bytesio")
    data = b"".join(sent)
    if kind == "bytesio":
        stream = io.BytesIO(data)
    elif kind == "buffered-raw":  # non-seekable: has tell(), which refuses to answer
        from mc.doubles import DribbleRaw  # pylint: disable=import-outside-toplevel

        stream = io.BufferedReader(DribbleRaw(data, 5), buffer_size=16)
    elif kind == "plain":  # an object with read()/readline() and nothing else
        from mc.doubles import FaultStream  # pylint: disable=import-outside-toplevel

        stream = FaultStream(data, None, faults=False)
    elif kind == "bytearray":
        from mc.doubles import TypedStream  # pylint: disable=import-outside-toplevel

        stream = TypedStream(data, None, bytearray, faults=False)
    else:
        from mc.doubles import SegSocket  # pylint: disable=import-outside-toplevel

        stream = SegSocket(data, [7] * 50)
        closer = stream.close
    try:
        rdr = RTCMReader(stream, quitonerror=q,
                         errorhandler=(herrs if use_handler == "falsy" else
                                       _Sink(herrs).put if use_handler == "method" else herrs.append)
                         if use_handler else None)
        # (nothing else refers to the handler's owner now; CPython frees unreferenced objects at once)
        events = []
        it = iter(rdr) if case.get("via_iter") else rdr  # the caller may keep ONE iterator object
        for _ in range(2 * len(frames) + 4):
            try:
                raw, _parsed = next(it)
                events.append(("frame", bytes(raw)))
            except StopIteration:
                events.append(("stop",))
                break
            except RTCMParseError:
                events.append(("parse-error",))
            except Exception as err:  # pylint: disable=broad-except
                events.append(("other", type(err).__name__))
        else:
            out.bad("nontermination", "iteration does not stop")
    finally:
        if closer:
            closer()
        lg.removeHandler(counter)
        lg.setLevel(old_level)
        logging.disable(logging.NOTSET)
        for l, lv in zip(libs, old_libs):
            l.setLevel(lv)
    name = f"k={len(frames)} damaged={sorted(damage)} q={q} handler={use_handler}" + (
        f" logging={logcfg}" if logcfg else "") + (f" stream={kind}" if kind != "bytesio" else "")
    got = [e[1] for e in events if e[0] == "frame"]
    if q in (0, 1):
        if any(e[0] in ("parse-error", "other") for e in events):
            out.bad("raises-in-nonraise-mode", f"{name}: events {[e[0] for e in events]}")
        if got != good:
            sig = "good-frame-lost" if len(got) < len(good) else "damaged-frame-delivered" \
                if len(got) > len(good) else "wrong-frames"
            out.bad(sig, f"{name}: yielded {len(got)} frames, expected the {len(good)} undamaged "
                    f"ones; sent {[s.hex() for s in sent]}")
        nrep = len(herrs) if use_handler else len([r for r in counter.records
                                                   if r.levelno >= logging.ERROR])
        want = len(damage) if q == 1 else 0
        if use_handler and q == 1 and any(not isinstance(e, RTCMParseError) for e in herrs):
            out.bad("handler-gets-wrong-error", f"{name}: handler got {[type(e).__name__ for e in herrs]}")
        if logcfg and not use_handler:
            nrep = want  # records are legitimately dropped by the application's configuration
        if nrep != want:
            out.bad("error-report-count" + (":ignore-mode" if q == 0 else ""),
                    f"{name}: {nrep} error reports via {'handler' if use_handler else 'logger'}, "
                    f"expected {want}")
    else:
        want_ev = [("parse-error",) if i in damage else ("frame", f) for i, f in enumerate(frames)]
        want_ev.append(("stop",))
        if events != want_ev:
            if any(e[0] == "other" for e in events):
                sig = "wrong-exception-class"
            elif [e for e in events if e[0] == "frame"] != [e for e in want_ev if e[0] == "frame"]:
                sig = "reader-does-not-recover"
            else:
                sig = "raise-sequence-differs"
            out.bad(sig, f"{name}: events {[e[0] for e in events]} expected {[e[0] for e in want_ev]}")
    out.nontrivial = bool(damage)
    out.obs = core.h64(repr((len(frames), sorted(damage.items()), q, use_handler,
                             [e[0] for e in events])))
    return out


def base_frames(k):
    lens = [2, 3, 5, 4][:k]
    return [pinned.frame(items.unknown_payload(n, 4010 + i, i)) for i, n in enumerate(lens)]


def cases(tier):
    out = []
    ks = (2, 3) if tier == "quick" else (1, 2, 3, 4)
    modes = [(0, True), (1, True), (1, False), (2, True), (0, False), (2, False)]
    for k in (2, 3):
        frames = base_frames(k)
        for i in range(k):
            for q in (0, 1, 2):
                out.append({"frames": frames, "damage": {i: 1}, "q": q, "handler": "falsy"})
                out.append({"frames": frames, "damage": {i: 1}, "q": q, "handler": "method"})
                out.append({"frames": frames, "damage": {i: 1}, "q": q, "handler": True, "via_iter": True})
                out.append({"frames": frames, "damage": {j: 1 for j in range(k)}, "q": q, "handler": False,
                            "via_iter": True})
                out.append({"frames": frames, "damage": {j: 1 for j in range(k)}, "q": q, "handler": "method"})
    for k in ks:
        frames = base_frames(k)
        # no damage
        for q, h in modes:
            out.append({"frames": frames, "damage": {}, "q": q, "handler": h})
        # single damaged frame: all patterns
        for i in range(k):
            nb = (len(frames[i]) - 3) * 8
            pats = patterns(nb)
            for kind, mask in pats:
                if tier == "quick" and kind == "crc3" and (mask & 0x7) == 0 and k == 3:
                    continue
                for q, h in (modes[:4] if tier == "quick" else modes):
                    out.append({"frames": frames, "damage": {i: mask}, "q": q, "handler": h})
        # several damaged frames: product over three patterns each
        for r in range(2, k + 1):
            for sub in itertools.combinations(range(k), r):
                opts = []
                for i in sub:
                    nb = (len(frames[i]) - 3) * 8
                    opts.append([1 << (nb - 1), 1, ((1 << 24) - 1) << max(0, nb - 24 - 3)])
                for combo in itertools.product(*opts):
                    for q, h in modes:
                        out.append({"frames": frames, "damage": dict(zip(sub, combo)),
                                    "q": q, "handler": h})
    # logging configurations of the host application x every single-bit damage x modes (handler)
    for k in (2, 3):
        frames = base_frames(k)
        for i in range(k):
            nb = (len(frames[i]) - 3) * 8
            for kind, mask in patterns(nb):
                if kind != "bit":
                    continue
                for logcfg in ("lib-critical", "reader-off", "disabled", "root-critical"):
                    for q, h in ((0, True), (1, True), (2, True), (1, "falsy"), (1, False)):
                        out.append({"frames": frames, "damage": {i: mask}, "q": q, "handler": h,
                                    "logcfg": logcfg})
    # kinds of stream object x every single-bit damage x modes
    for k in (2, 3):
        frames = base_frames(k)
        for i in range(k):
            nb = (len(frames[i]) - 3) * 8
            for kind, mask in patterns(nb):
                if kind not in ("bit", "syn"):
                    continue
                for skind in ("buffered-raw", "plain", "bytearray", "socket"):
                    for q, h in modes[:4]:
                        out.append({"frames": frames, "damage": {i: mask}, "q": q, "handler": h,
                                    "stream": skind})
    # rebroadcast (byte-identical) frames: a damaged copy of a frame the same reader has already
    # delivered must still be rejected (static messages such as 1005/1033 repeat verbatim)
    a, b = base_frames(2)
    c19 = pinned.frame(items.frames()["F19"]["payload"])
    for frames in ([a, a], [a, b, a], [a, a, b], [c19, c19], [c19, a, c19, c19]):
        for i in range(1, len(frames)):
            if frames[i] not in frames[:i]:
                continue
            nb = (len(frames[i]) - 3) * 8
            for kind, mask in patterns(nb):
                if kind not in ("bit", "adj", "ends") and not (kind.startswith("burst") and tier == "thorough"):
                    continue
                for q, h in modes[:4]:
                    out.append({"frames": frames, "damage": {i: mask}, "q": q, "handler": h})
    # frames whose payload contains sync-looking bytes (D3 00 .., B5 62, '$'): damage must not
    # make the reader re-synchronise inside the damaged frame
    fs = items.frames()
    sync = [pinned.frame(b"\xfa\x00\xd3\x00\x02\xb5\x62\x24\x47"),
            pinned.frame(b"\xfa\x10\x00\xd3\x00\x13\x3e\xd0\xd3\x00\x00\x11")]
    for frames in ([sync[0], a, c19], [a, sync[1], b], [sync[1], sync[0]]):
        for i, fr in enumerate(frames):
            if fr not in sync:
                continue
            nb = (len(fr) - 3) * 8
            for kind, mask in patterns(nb):
                if kind not in ("bit", "adj", "ends"):
                    continue
                for q, h in modes[:4]:
                    out.append({"frames": frames, "damage": {i: mask}, "q": q, "handler": h})
    # deep histories: a long run of damaged frames between two good ones
    for n in ((1200,) if tier == "quick" else (1200, 5000)):
        frames = [a] + [b] * n + [c19]
        dmg = {i: 1 << ((i * 7) % ((len(b) - 3) * 8)) for i in range(1, n + 1)}
        for q, h in modes[:3]:
            out.append({"frames": frames, "damage": dmg, "q": q, "handler": h})
    return out


def _work(chunk):
    return core.run_cases(judge, chunk, sample_every=2503)


def run(tier, seed, t0):
    allc = cases(tier)
    core.check_deterministic(judge, allc[len(allc) // 2])
    st = core.pmap(_work, core.chunks(allc, 1500))
    st.extra["patterns_per_40bit_frame"] = len(patterns(40))
    return core.finish(
        "C05", tier, seed, LEVEL, st, RULE, t0,
        assumptions=[
            "damage is confined to the payload and CRC bytes of a frame (the 3-byte header is "
            "intact, as the property states)",
            "multi-bit patterns are enumerated families; single-bit positions are complete",
            "without a user handler the report is counted as ERROR records on the 'pyrtcm' logger",
        ],
    )
