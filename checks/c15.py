"""
C15 -- identity is the transmitted message number; unknown types are preserved.

Space: all 4096 message numbers x all header-padding variants x tails, and
4076 x all 256 sub-types x all 8 version values x tails.  Exhaustive over the
12-bit and 8-bit spaces named by the property.
"""

from mc import core, pinned

LEVEL = "exploration"
RULE = (
    "case = (12-bit number, 4076 sub-type/version or 4 pad bits, tail); all 4096 numbers and all "
    "256 sub-types enumerated; non-trivial = the message was constructed (not a library error); "
    "distinct = distinct (identity, DF002, ismsm, unknown/known, error class) observations"
)


def tails(tier):
    fp = bytes((37 * i + 11) & 0xFF for i in range(21))
    t = [b"", b"\x00", b"\xff", fp[:1], fp[:5], fp, b"\x00" * 64]
    if tier == "thorough":
        t += [b"\xff" * 64, b"\x00" * 1021, b"\xff" * 1020, fp * 20, b"\xaa" * 300]
    return t


def build(num, sub, ver, pad, tail):
    if num == 4076:
        v, n = pinned.header(num, sub, ver)
        v = (v << 1) | (pad & 1)
        return v.to_bytes(3, "big") + tail[:1020]
    return ((num << 4) | pad).to_bytes(2, "big") + tail[:1021]


@core.guard
def judge(case):
    from pyrtcm import RTCMMessage, RTCMReader, exceptions  # pylint: disable=import-outside-toplevel
    from pyrtcm import (  # pylint: disable=import-outside-toplevel
        RTCM_PAYLOADS_GET,
        RTCM_PAYLOADS_GET_IGS,
        RTCM_PAYLOADS_GET_MSM,
    )

    from mc.readerharness import lib_exceptions  # pylint: disable=import-outside-toplevel

    libexc = lib_exceptions()
    out = core.Outcome()
    if "payload" in case:  # a given payload: number / sub-type are read back with the reference
        payload = case["payload"]
        want = pinned.ref_identity(payload)
        num = int(want[:4]) if want.startswith("4076_") else int(want)
        sub = int(want[5:]) if want.startswith("4076_") else None
    else:
        num, sub, ver, pad = case["num"], case.get("sub"), case.get("ver", 0), case.get("pad", 0)
        payload = build(num, sub, ver, pad, case["tail"])
        want = f"4076_{sub:03d}" if num == 4076 else str(num)
    core.require(pinned.ref_identity(payload) == want, "C15 reference identity")
    defined = (
        want in RTCM_PAYLOADS_GET or want in RTCM_PAYLOADS_GET_MSM or want in RTCM_PAYLOADS_GET_IGS
    )
    try:
        msg = RTCMMessage(payload=payload)
    except libexc as err:
        out.nontrivial = False
        out.obs = ("err", type(err).__name__, defined)
        if not defined:
            out.bad("undefined-number-raises", f"{want}: {type(err).__name__}: {err}")
        elif case.get("must_parse"):
            out.bad("defined-zero-payload-fails", f"{want} zero-filled payload: {err}")
        return out
    except Exception as err:  # pylint: disable=broad-except
        out.obs = ("foreign", type(err).__name__)
        out.bad("foreign-exception", f"{want}: {type(err).__name__}: {err}")
        return out
    ident = msg.identity
    if ident != want:
        out.bad("identity-wrong", f"payload {payload[:4].hex()}: identity {ident!r} != {want!r}")
    df002 = getattr(msg, "DF002", None)
    if defined:
        if not (isinstance(df002, int) and not isinstance(df002, bool) and df002 == num):
            out.bad("df002-wrong", f"{want}: DF002={df002!r} for defined type (want {num})")
    else:
        if msg.payload != payload:
            out.bad("stub-payload-lost", f"{want}: payload {msg.payload!r} != given")
        try:
            ser = msg.serialize()
            if ser != pinned.frame(payload):
                out.bad("stub-serialize", f"{want}: serialize() {ser.hex()} != reference frame")
            back = RTCMReader.parse(pinned.frame(payload))
            if back.payload != payload or back.identity != want:
                out.bad("stub-roundtrip", f"{want}: parse(serialize()) changed payload/identity")
            str(msg)
            repr(msg)
        except libexc as err:
            out.bad("undefined-number-raises", f"{want}: {type(err).__name__}: {err}")
        except Exception as err:  # pylint: disable=broad-except
            out.bad("foreign-exception", f"{want}: {type(err).__name__}: {err}")
    ismsm = msg.ismsm
    if num in pinned.MSM_NUMBERS:
        if ismsm is not True and ismsm != 1:
            out.bad("ismsm-false-for-msm", f"{want}: ismsm={ismsm!r}")
    elif not 1070 <= num <= 1229:
        if ismsm:
            out.bad("ismsm-true-outside-block", f"{want}: ismsm={ismsm!r}")
    if want in pinned.IMPLEMENTED and not defined:
        out.bad("pinned-identity-undefined", f"{want} no longer has a payload definition")
    out.obs = (ident, repr(df002), bool(ismsm), defined)
    return out


def cases(tier):
    tl = tails(tier)
    fp1021 = bytes((91 * i + 29) & 0xFF for i in range(1021))
    for num in range(4096):
        if num == 4076:
            continue
        for pad in (0, 0xF, 0x5):
            for t in tl:
                yield {"num": num, "pad": pad, "tail": t}
        yield {"num": num, "pad": 0, "tail": b"\x00" * 125, "must_parse": True}
        if num % 16 == 7 or num in (0, 4095, 1070, 1229, 1230, 1240, 4001, 4072):
            for t in (fp1021, b"\xff" * 1021, fp1021[:1020]):
                yield {"num": num, "pad": 0, "tail": t}  # payloads of 1023 and 1022 bytes
    # every implemented type with well-formed, populated payloads (not only the all-zero one)
    from mc import corpus  # pylint: disable=import-outside-toplevel

    for it in corpus.build(tier):
        if it["kind"] == "ok":
            yield {"payload": it["payload"], "must_parse": True, "name": it["name"]}
    # payloads that are THEMSELVES complete, CRC-valid transport frames (a frame tunnelled inside a
    # message of the unassigned number 3376 = 0xD30, or handed to the constructor by mistake): the
    # identity is still the first 12 payload bits and the whole payload is kept
    for k, it in enumerate(corpus.build(tier)):
        if it["kind"] == "ok" and (k % 9 == 0 or len(it["payload"]) < 8) and len(it["payload"]) <= 1017:
            yield {"payload": pinned.frame(it["payload"]), "name": f"framed:{it['name']}"}
    for inner in (b"", b"\x00", b"\x3e\xd0", b"\xd3\x00\x00", bytes(range(256)) + b"\x01" * 44, b"\xff" * 1011, b"\xff" * 1017):
        fr = pinned.frame(inner)
        yield {"payload": fr, "name": f"framed:{len(inner)}B"}
        if len(fr) <= 1017:
            yield {"payload": pinned.frame(fr), "name": f"framed-twice:{len(inner)}B"}
    from mc import refmodel as R  # pylint: disable=import-outside-toplevel

    for num in pinned.MSM_NUMBERS:  # satellites present, no cell selected
        try:
            pl, _o, _n = R.build(str(num), {"DF394": (1 << 63) | (1 << 20), "DF395": 1 << 30, "DF396": 0}, "fp")
            yield {"payload": pl, "must_parse": True, "name": f"{num}/no-cells"}
        except Exception:  # pylint: disable=broad-except
            pass
    for sub in range(256):
        if sub % 16 == 8 or sub in (0, 200, 255):
            yield {"num": 4076, "sub": sub, "ver": 0, "pad": 0, "tail": fp1021[:1020]}
        for ver in range(8):
            for pad in (0, 1):
                for t in tl if ver in (0, 7) else tl[:2]:
                    yield {"num": 4076, "sub": sub, "ver": ver, "pad": pad, "tail": t}
        yield {"num": 4076, "sub": sub, "ver": 0, "pad": 0, "tail": b"\x00" * 125,
               "must_parse": True}


def _work(chunk):
    return core.run_cases(judge, chunk, sample_every=997)


def run(tier, seed, t0):
    allc = list(cases(tier))
    core.check_deterministic(judge, allc[len(allc) // 3])
    st = core.pmap(_work, core.chunks(allc, 2000))
    # the same cases under other interpreter configurations (-O, -OO, -W error, -X dev)
    core.interpreter_modes("C15", allc[:: max(1, len(allc) // 300)], st)
    # history sweeps in ONE process: the same headers again in other orders, so that a lookup
    # memoised under too coarse a key (first-seen wins) meets its colliding partner
    fp = bytes((37 * i + 11) & 0xFF for i in range(9))
    orders = []
    subs = list(range(256))
    orders.append([{"num": 4076, "sub": x, "ver": v, "pad": 0, "tail": fp}
                   for s0 in range(128) for x in (s0, s0 + 128) for v in (0,)])
    orders.append([{"num": 4076, "sub": x, "ver": 5, "pad": 1, "tail": fp}
                   for s0 in range(128) for x in (s0 + 128, s0)])
    orders.append([{"num": 4076, "sub": int(f"{x:08b}"[::-1], 2), "ver": 0, "pad": 0, "tail": fp}
                   for x in subs])
    nums = [n for n in range(4096) if n != 4076]
    orders.append([{"num": n, "pad": 0, "tail": fp} for n in reversed(nums)])
    orders.append([{"num": int(f"{x:012b}"[::-1], 2), "pad": 0xF, "tail": fp} for x in range(4096)
                   if int(f"{x:012b}"[::-1], 2) != 4076])
    orders.append([{"num": n ^ m, "pad": 0, "tail": b"\x00" * 125}
                   for n in range(0, 4096, 1) for m in (0,) if (n ^ m) != 4076][::-1])
    nseq = 0
    for order in orders:
        for case in order:
            st.add(case, judge(case))
            nseq += 1
    st.extra["single_process_history_sweep_cases"] = nseq
    return core.finish(
        "C15", tier, seed, LEVEL, st, RULE, t0,
        assumptions=[
            "which identities count as 'implemented' is read from the tree's three public "
            "payload tables; the pinned list of 49 MSM numbers and of identities implemented at "
            "the pinned commit is a floor",
            "tails are representatives (empty, 00, FF, fingerprint, zero/one fill up to 1021 bytes)",
        ],
    )
