"""
C06 -- fields are never read past the end of the payload.

Space: every identity x every shape x valuations {zeros, ones, fingerprint; for text fields
also all-NUL and embedded-NUL code units} x
every whole-byte truncation from full-1 bytes down to the identity header
(2 bytes, 3 for 4076).  Oracle: constructing the message must fail.
"""

from mc import core, pinned
from mc import refmodel as R
from mc import shapes as S

LEVEL = "exploration"
RULE = (
    "case = (identity, shape, valuation, truncated length); for each complete reference payload "
    "every cut length from full-1 down to 2 (3 for 4076) bytes is tried on the real constructor; "
    "non-trivial = the cut removes at least one bit of an announced field (always true by "
    "construction: full = ceil(bits/8)); distinct_outcomes = distinct (identity, error text class)"
)


@core.guard
def judge(case):
    from pyrtcm import RTCMMessage  # pylint: disable=import-outside-toplevel

    out = core.Outcome()
    identity = case["id"]
    try:
        payload, _occs, nbits = R.build(identity, case.get("shape"), case.get("mode", "fp"))
    except (R.BadDefinition, R.TooLong):
        out.nontrivial = False
        return out
    cut = case["cut"]
    core.require(cut < len(payload) and cut * 8 < nbits, "C06 cut")
    _judge_cut(identity, payload, cut, out, ("bytes", "view-slice", "bytearray", "view-slice-ba"))
    _judge_stale_frame(identity, payload, cut, out)
    return out


def _judge_cut(identity, payload, cut, out, kinds=("bytes",)):
    """
    The truncated payload is handed over as each of the given kinds of bytes-like object (all of
    which the constructor accepts for complete payloads): a bytes object, a bytearray, and a
    memoryview that is a SLICE of the complete payload's buffer (the cut-off bytes are still in
    memory behind it, but they are not part of the payload).
    """
    from pyrtcm import RTCMMessage  # pylint: disable=import-outside-toplevel

    for kind in kinds:
        arg = {"bytes": lambda: payload[:cut], "bytearray": lambda: bytearray(payload[:cut]),
               "view-slice": lambda: memoryview(payload)[:cut],
               "view-slice-ba": lambda: memoryview(bytearray(payload) + b"\xff" * 8)[:cut]}[kind]()
        try:
            msg = RTCMMessage(payload=arg)
        except Exception as err:  # pylint: disable=broad-except
            out.obs = (identity[:4], type(err).__name__)
            continue
        out.obs = (identity, "accepted")
        pub = [k for k in vars(msg) if not k.startswith("_")]
        out.bad("truncated-accepted" + ("" if kind == "bytes" else ":" + kind),
                f"{identity}: payload of {len(payload)} bytes cut to {cut} bytes, handed over as {kind}, was "
                f"accepted ({len(pub)} attributes, last {pub[-1] if pub else None}); payload "
                f"{payload[:cut].hex()[:100]}")
        return


def _judge_stale_frame(identity, payload, cut, out):
    """
    The same truncated payload inside a frame buffer whose length field still announces the
    complete size (CRC correct for the bytes present): the static parser must not fill the
    missing fields from the CRC bytes.
    """
    from pyrtcm import RTCMReader  # pylint: disable=import-outside-toplevel

    # first the complete frame (a parser may remember it), then the short buffer under the complete
    # frame's own trailer with validation off, then under its own correct trailer
    full = pinned.frame(payload)
    try:
        RTCMReader.parse(full)
    except Exception:  # pylint: disable=broad-except
        pass
    short = b"\xd3" + cut.to_bytes(2, "big") + payload[:cut] + full[-3:]
    try:
        msg = RTCMReader.parse(short, validate=0)
        out.bad("truncated-accepted:after-complete-frame",
                f"{identity}: after the complete {len(payload)}-byte frame had been parsed, a frame of the "
                f"first {cut} payload bytes carrying the same trailer (validate=0) was decoded into a "
                f"message with a {len(msg.payload)}-byte payload")
    except Exception:  # pylint: disable=broad-except
        pass
    body = b"\xd3" + len(payload).to_bytes(2, "big") + payload[:cut]
    buf = body + pinned.crc24q_table(body).to_bytes(3, "big")
    for validate in (1, 0):
        try:
            msg = RTCMReader.parse(buf, validate=validate)
        except Exception:  # pylint: disable=broad-except
            continue
        if bytes(msg.payload) == payload[:cut]:
            sig = "truncated-accepted"
        else:
            sig = "truncated-accepted:fields-read-from-crc-bytes"
        out.bad(sig, f"{identity}: frame buffer announcing {len(payload)} payload bytes but carrying "
                f"{cut} (validate={validate}) was decoded into a message with a "
                f"{len(msg.payload)}-byte payload")
        break


def _work(item):
    identity, shapes, tier = item
    st = core.Stats()
    lo = 3 if identity.startswith("4076") else 2
    for shape in shapes:
        for mode in ("fp", "zeros", "ones", "nul", "nulmix"):
            try:
                payload, _occs, nbits = R.build(identity, shape, mode)
            except (R.BadDefinition, R.TooLong):
                continue
            if mode in ("nul", "nulmix") and not any(o.typ == "STR" for o in _occs):
                continue  # only text-carrying payloads differ from zeros / fp
            cuts = range(len(payload) - 1, lo - 1, -1)
            if tier == "quick" and len(payload) > 300:
                cuts = list(cuts[:40]) + list(cuts[40:-40:7]) + list(cuts[-40:])
                st.extra["payloads_with_sampled_cuts"] = st.extra.get("payloads_with_sampled_cuts", 0) + 1
            for k, cut in enumerate(cuts):
                out = core.Outcome()
                near = len(payload) - cut <= 4
                _judge_cut(identity, payload, cut, out,
                           ("bytes", "view-slice", "bytearray", "view-slice-ba") if near or k % 8 == 0
                           else ("bytes", "view-slice") if k % 2 == 0 else ("bytes",))
                if len(payload) - cut <= 4 or k % 8 == 0:
                    _judge_stale_frame(identity, payload, cut, out)
                    st.extra["stale_length_frames"] = st.extra.get("stale_length_frames", 0) + 1
                st.add({"id": identity, "shape": shape, "mode": mode, "cut": cut}, out,
                       keep_sample=(k == 0 and mode == "fp" and len(st.samples) < 1))
    return st


def run(tier, seed, t0):
    items = []
    for identity, _tbl in R.all_identities():
        try:
            shp = S.enumerate_shapes(identity, tier)
        except R.BadDefinition:
            continue  # reported by C03 / C10
        for ch in core.chunks(shp, 10):
            items.append((identity, ch, tier))
    core.check_deterministic(judge, {"id": "1004", "shape": {"DF006": 2}, "cut": 20})
    st = core.pmap(_work, items)
    st.extra["identities"] = len(R.all_identities())
    return core.finish(
        "C06", tier, seed, LEVEL, st, RULE, t0,
        assumptions=[
            "complete payloads come from the reference encoder over the tree's definitions",
            "quick tier: payloads above 300 bytes are cut at the first/last 40 lengths and every "
            "7th in between; thorough tier: every length",
        ],
    )
