"""
C16 -- the MSM label option changes signal labels only.

Space: labelmsm in {0, 1, 2, True} x MSM shapes x all 49 MSM types, every
non-MSM corpus item; through RTCMMessage, RTCMReader.parse and a reader.
Oracle: options 0/1/True identical; option 2 differs from 1 in CELLSIG_* only;
(constellation, option, signal ID) -> label is a function over everything
explored; non-MSM messages identical under all options.
"""

import io

from mc import core, corpus, msmref, pinned
from mc import refmodel as R

LEVEL = "exploration"
RULE = (
    "case = one payload decoded under labelmsm 0, 1, 2, True directly, via the static parser and "
    "via a reader; MSM payloads: 49 types x mask shapes (every single signal ID, pairs, full "
    "mask; 1-3 satellites); non-MSM: every corpus payload; the (constellation, option, signal "
    "ID) -> label relation collected over ALL cases must be a function; non-trivial = MSM payload "
    "with at least one cell; distinct by construction"
)


def _decode_all(payload):
    from pyrtcm import RTCMMessage, RTCMReader  # pylint: disable=import-outside-toplevel

    res = {}
    frame = pinned.frame(payload)
    # the band option is decoded first (after whatever the previous case left behind), again after
    # the RINEX options and once more at the end: all decodings under one option must agree
    import copy  # pylint: disable=import-outside-toplevel
    import pickle  # pylint: disable=import-outside-toplevel

    for lm in (2, 0, 1, 2, True, 2, 1):
        mobj = RTCMMessage(payload=payload, labelmsm=lm)
        a = dict(R.public_attrs(mobj))
        # the same message after travelling through the object-copy protocol is still the message
        # decoded under that option: every occurrence of a signal ID keeps its label
        for how, fn in (("copy.copy", copy.copy), ("copy.deepcopy", copy.deepcopy),
                        ("pickle", lambda m: pickle.loads(pickle.dumps(m)))):
            try:
                t = dict(R.public_attrs(fn(mobj)))
            except Exception as err:  # pylint: disable=broad-except
                t = {"<error>": f"{type(err).__name__}: {err}"}
            if t != a and "transport-differs" not in res:
                res["transport-differs"] = (repr(lm), how, a, t)
        if repr(lm) in res and res[repr(lm)][0] != a:
            res["repeat-differs"] = (repr(lm), a, res[repr(lm)][0])
        b = dict(R.public_attrs(RTCMReader.parse(frame, labelmsm=lm)))
        c = a
        for v in (1, 0):
            for q in (0, 1, 2):
                rdr = RTCMReader(io.BytesIO(frame), labelmsm=lm, validate=v, quitonerror=q)
                _raw, parsed = rdr.read()
                cc = dict(R.public_attrs(parsed))
                if cc != a:
                    c = cc
        b0 = dict(R.public_attrs(RTCMReader.parse(frame, validate=0, labelmsm=lm)))
        if b0 != a:
            b = b0
        # the frame handed over as another bytes-like type, and read from a stream that returns one
        # the documented positional form parse(message, validate, labelmsm)
        bp = dict(R.public_attrs(RTCMReader.parse(frame, 1, lm)))
        if bp != a:
            b = bp
        for conv in (bytearray, memoryview):
            bt = dict(R.public_attrs(RTCMReader.parse(conv(frame), labelmsm=lm)))
            if bt != a:
                b = bt
        from mc.doubles import TypedStream  # pylint: disable=import-outside-toplevel

        _raw, parsed = RTCMReader(TypedStream(frame, None, bytearray, faults=False), labelmsm=lm).read()
        if dict(R.public_attrs(parsed)) != a:
            c = dict(R.public_attrs(parsed))
        res[repr(lm)] = (a, b, c)
    # two readers alive at the same time with different options, used after both were created
    r1 = RTCMReader(io.BytesIO(frame), labelmsm=1)
    r2 = RTCMReader(io.BytesIO(frame), labelmsm=2)
    r0 = RTCMReader(io.BytesIO(frame), labelmsm=0)
    m1, m2, m0 = r1.read()[1], r2.read()[1], r0.read()[1]
    for lm, m in (("1", m1), ("2", m2), ("0", m0)):
        if dict(R.public_attrs(m)) != res[lm][0]:
            a, b, _c = res[lm]
            res[lm] = (a, b, dict(R.public_attrs(m)))
    return res


@core.guard
def judge(case):
    out = core.Outcome()
    payload = case["payload"]
    try:
        res = _decode_all(payload)
    except Exception as err:  # pylint: disable=broad-except
        if case.get("must_parse", True):
            out.bad("decode-raises", f"{case['name']}: {type(err).__name__}: {err}")
        else:
            out.nontrivial = False
        return out
    if "repeat-differs" in res:
        lm, now, before = res.pop("repeat-differs")
        d = sorted(k for k in set(now) | set(before) if now.get(k) != before.get(k))
        out.bad("label-depends-on-earlier-option",
                f"{case['name']}: decoding the same payload twice under labelmsm={lm}, with decodings "
                f"under other options in between, gives different {d[:4]}: {[now.get(k) for k in d[:3]]} "
                f"vs {[before.get(k) for k in d[:3]]}")
    if "transport-differs" in res:
        lm, how, a, t = res.pop("transport-differs")
        d = sorted(k for k in set(a) | set(t) if a.get(k) != t.get(k))
        out.bad("label-changes-in-copy" if all(k.startswith("CELLSIG_") for k in d) else "copy-differs",
                f"{case['name']}: the message decoded under labelmsm={lm} and its {how} differ in "
                f"{d[:4]}: {[a.get(k) for k in d[:3]]} vs {[t.get(k) for k in d[:3]]}")
    for lm, (a, b, c) in res.items():
        if a != b or a != c:
            out.bad("option-not-passed-through",
                    f"{case['name']} labelmsm={lm}: direct / static parser / reader decodings differ")
    one = res["1"][0]
    for lm in ("0", "True"):
        if res[lm][0] != one:
            d = [k for k in set(one) | set(res[lm][0]) if one.get(k) != res[lm][0].get(k)]
            out.bad("option-0-or-True-differs-from-1",
                    f"{case['name']}: labelmsm={lm} differs from 1 in {sorted(d)[:4]}")
    two = res["2"][0]
    diff = [k for k in set(one) | set(two) if k not in one or k not in two or one[k] != two[k]]
    bad = [k for k in diff if not k.startswith("CELLSIG_")]
    if bad:
        out.bad("option-changes-non-label" + (":non-msm" if not (case.get("msm") or case.get("corpus_msm")) else ""),
                f"{case['name']}: labelmsm=2 vs 1 differ in {sorted(bad)[:5]}")
    if case.get("msm"):
        base = case["base"]
        ref = msmref.decode_masks(base, case["sat"], case["sig"], case["cell"])
        rel = set()
        for k, (_prn, sid, code) in enumerate(ref["cells"], 1):
            for lm, tag in (("1", 1), ("2", 2)):
                lab = res[lm][0].get(f"CELLSIG_{k:02d}")
                rel.add((base, tag, sid, lab))
            for lm in ("0", "1", "True"):
                lab = res[lm][0].get(f"CELLSIG_{k:02d}")
                if lab != code:
                    out.bad("rinex-option-gives-other-label",
                            f"{case['name']}: labelmsm={lm}: CELLSIG_{k:02d}={lab!r} for signal ID {sid}, "
                            f"RINEX code is {code!r}")
                    break
            lab2 = res["2"][0].get(f"CELLSIG_{k:02d}")
            if code != pinned.NA and lab2 == code:
                out.bad("band-option-gives-rinex-code",
                        f"{case['name']}: labelmsm=2: CELLSIG_{k:02d}={lab2!r} is the RINEX code of "
                        f"signal ID {sid}, not a frequency band")
        out.extra["labels"] = rel
        out.nontrivial = bool(ref["cells"])
        # within one message
        seen = {}
        for b_, t_, s_, l_ in rel:
            if seen.setdefault((t_, s_), l_) != l_:
                out.bad("label-not-functional", f"{case['name']}: signal ID {s_} labelled both "
                        f"{seen[(t_, s_)]!r} and {l_!r} under option {t_}")
    else:
        out.nontrivial = False
        if diff:
            pass
    out.obs = core.h64(payload)
    return out


def cases(tier):
    out = []
    seen = set()

    def add_msm(ident, sat, sig, cell):
        key = (ident, sat, sig, cell)
        if key in seen:
            return
        seen.add(key)
        try:
            payload, _o, _n = R.build(ident, {"DF394": sat, "DF395": sig, "DF396": cell}, "fp")
        except R.TooLong:
            return
        out.append({"name": f"{ident}/{sat:x}/{sig:x}/{cell:x}", "payload": payload, "msm": True,
                    "base": int(ident) // 10, "sat": sat, "sig": sig, "cell": cell})

    for n in pinned.MSM_NUMBERS:
        ident = str(n)
        level = n % 10
        add_msm(ident, 0, 0, 0)
        add_msm(ident, 1 << 63, (1 << 32) - 1, (1 << 32) - 1)
        add_msm(ident, (1 << 63) | 1, (1 << 30) | (1 << 16) | 1, 0b101101)
        add_msm(ident, msmref.first_n(64, 3, 5), msmref.first_n(32, 4, 7), 0xA5F)
        if level in (1, 7) or tier == "thorough":
            # every satellite ID of the constellation at once (64 satellites x 1 signal)
            add_msm(ident, (1 << 64) - 1, 1 << 30, (1 << 64) - 1)
            for g in range(32):
                add_msm(ident, 1 << 50, 1 << (31 - g), 1)
                add_msm(ident, (1 << 50) | (1 << 3), (1 << (31 - g)) | (1 << ((g + 7) % 32)), 0b1111)
    for it in corpus.build(tier):
        out.append({"name": it["name"], "payload": it["payload"], "msm": False,
                    "corpus_msm": it["identity"] in [str(n) for n in pinned.MSM_NUMBERS],
                    "must_parse": it["kind"] != "fail"})
    return out


def _work(chunk):
    return core.run_cases(judge, chunk, sample_every=401)


def run(tier, seed, t0):
    allc = cases(tier)
    core.check_deterministic(judge, allc[5])
    st = core.pmap(_work, core.chunks(allc, 60))
    # the same cases under other interpreter configurations (-O, -OO, -W error, -X dev)
    core.interpreter_modes("C16", allc[:: max(1, len(allc) // 300)], st)
    labels = st.extra.pop("labels", set())
    fn = {}
    for base, opt, sid, lab in sorted(labels, key=repr):
        prev = fn.setdefault((base, opt, sid), lab)
        if prev != lab:
            o = core.Outcome()
            o.bad("label-not-functional",
                  f"constellation {base}x: signal ID {sid} is labelled {prev!r} in one message and "
                  f"{lab!r} in another under option {opt}")
            st.add({"name": "global-label-relation", "payload": b"", "msm": False,
                    "must_parse": False}, o)
    st.extra["label_relation_entries"] = len(fn)
    return core.finish(
        "C16", tier, seed, LEVEL, st, RULE, t0,
        assumptions=["signal IDs of cells come from the reference mask decoder (mc/msmref.py)"],
    )
