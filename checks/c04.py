"""
C04 -- parsing is total (only the library's own errors) and always terminates.

(a) constructor / static parser: all 4096 numbers x short lengths x fills, all
    first bytes for 1-byte payloads, all 4076 sub-types, every truncation and
    maximal-counter variant of every corpus payload, spliced bodies (payload of
    type A under the number of type B, all ordered pairs), short buffers.
(b) streams: every C01 stream with fault schedules under quitonerror x validate
    x parsed; ignore/log modes never raise; stream-call budget bounds every read.
"""

import itertools

from mc import core, corpus, items, pinned
from mc import readerharness as H
from mc import refmodel as R
from mc.explore import explore

LEVEL = "exploration"
RULE = (
    "case = byte string given to RTCMMessage / RTCMReader.parse (validate 0 and 1), or (stream, "
    "fault schedule, quitonerror, validate, parsed) iterated on the real reader; outcome must be "
    "a message, a clean end, or one of the classes in pyrtcm.exceptions; termination = bounded "
    "number of stream calls; non-trivial = the input is not accepted as a plain valid message "
    "(an error path or a stub path is exercised) or a stream with at least one hostile item; "
    "distinct_outcomes = distinct (entry point, outcome class, identity) observations"
)


def _classify(fn):
    lib = H.lib_exceptions()
    try:
        res = fn()
        return "ok", res
    except lib as err:
        return "lib:" + type(err).__name__, None
    except RecursionError as err:
        return "foreign:RecursionError", str(err)
    except Exception as err:  # pylint: disable=broad-except
        return "foreign:" + type(err).__name__, str(err)[:100]


def judge_bytes(case, out):
    from pyrtcm import RTCMMessage, RTCMReader  # pylint: disable=import-outside-toplevel

    data = case["data"]
    obs = []
    if case["entry"] in ("msg", "both"):
        for lm in (1, 2):
            cls, info = _classify(lambda: RTCMMessage(payload=data, labelmsm=lm))  # pylint: disable=cell-var-from-loop
            obs.append(cls)
            if cls.startswith("foreign"):
                out.bad(f"foreign-exception:RTCMMessage:{cls[8:]}",
                        f"RTCMMessage(payload={data[:24].hex()}.. {len(data)} B) raises "
                        f"{cls[8:]}: {info}")
            elif cls == "ok":
                c2, i2 = _classify(lambda: (str(info), repr(info), info.serialize(), info.ismsm))  # pylint: disable=cell-var-from-loop
                if c2 != "ok":
                    out.bad(f"foreign-exception:str/serialize:{c2}", f"{data[:24].hex()}: {c2} {i2}")
    if case["entry"] in ("parse", "both"):
        frames = [data] if case["entry"] == "parse" else [pinned.frame(data)] if len(data) <= 1023 else []
        for buf in frames:
            for validate in (0, 1):
                cls, info = _classify(lambda: RTCMReader.parse(buf, validate=validate))  # pylint: disable=cell-var-from-loop
                obs.append(cls)
                if cls.startswith("foreign"):
                    out.bad(f"foreign-exception:parse:{cls[8:]}",
                            f"RTCMReader.parse({buf[:24].hex()}.. {len(buf)} B, validate={validate}) "
                            f"raises {cls[8:]}: {info}")
    out.nontrivial = any(o != "ok" for o in obs) or case.get("kind") in ("unknown", "splice")
    out.obs = (case["entry"], tuple(obs), pinned.ref_identity(data) if len(data) >= 3 else len(data))


def judge_stream(case, out):
    source = case["source"]
    cfg = case["cfg"]
    rec = H.execute(source, case.get("choices", ()), validate=cfg["v"], quitonerror=cfg["q"],
                    parsed=cfg["p"], handler=cfg.get("h", True))
    _stream_oracle(rec, cfg, out, case.get("stream", ""))


def _stream_oracle(rec, cfg, out, name):
    for ev in rec["events"]:
        if ev[0] == "foreign":
            out.bad(f"foreign-exception:read:{ev[1]}",
                    f"stream {name}: read() raised {ev[1]} ({ev[3]}) at stream position {ev[2]} "
                    f"(quitonerror={cfg['q']}, validate={cfg['v']}, parsed={cfg['p']})")
        elif ev[0] == "nonterm":
            out.bad("nontermination", f"stream {name}: read() exceeded its stream-call budget")
        elif ev[0] == "lib" and cfg["q"] in (0, 1):
            out.bad("iterator-raises-in-nonraise-mode",
                    f"stream {name}: read() raised {ev[1]} under quitonerror={cfg['q']}")
    out.obs = core.h64(repr((name, cfg["q"], cfg["v"], cfg["p"],
                             [(e[0], e[1]) for e in rec["events"]])))
    out.nontrivial = any(e[0] in ("lib", "foreign") for e in rec["events"]) or bool(
        rec["handler_calls"]) or any(e[0] == "none" and not e[2] for e in rec["events"])


_KILLED = [0]


def _isolated(case):
    out = core.Outcome()
    _judge_iter(case, out)
    return out.violations, out.obs


def hostile_line_cases():
    """
    Text lines that start like an NMEA sentence ('$' + talker letter), run on for a long stretch of
    printable characters and then do NOT end the way a sentence does (checksum missing, '*' hit by
    line noise, lower-case digits, a second '*', a control byte near the end, no LF at all).
    Each is iterated in a forked child that is killed from outside on time-out.
    """
    f = items.frames()
    fa, fb = f["F2"]["data"], f["F19"]["data"]
    bodies = {
        "fields": lambda n: (b"NGLL,5327.04319,N,00214.41396,W,223232.00,A,A,1.2,3.4,M,-22.1,M,,0000" * 9)[:n],
        "letters": lambda n: (b"ABCDEFGHIJKLMNOPQRSTUVWXYZ0123456789" * 9)[:n],
        "commas": lambda n: b"," * n,
        "mixed": lambda n: (b"a,,b;c d,e-f.g/h" * 20)[:n],
    }
    ends = [b"\r\n", b"*5\r\n", b"*5g\r\n", b"\x0055\r\n", b"**55\r\n", b"*55\r\r\n", b"*55 \r\n",
            b"*55", b"\n", b"*5\x00\r\n", b"*ff\r\n"]
    out = []
    for bn, mk in bodies.items():
        for n in (26, 47, 120, 300):
            for k, end in enumerate(ends):
                for talker in ("G", "P"):
                    if talker == "P" and k % 3:
                        continue
                    src = fa + b"$" + talker.encode() + mk(n) + end + fb + fa
                    for q in (0, 1, 2):
                        if q != 1 and (n not in (47, 300) or k % 2):
                            continue
                        out.append({"kind": "iter", "isolated": True, "source": src,
                                    "stream": f"F2 + ${talker}{bn}x{n}{end!r} + F19 + F2",
                                    "cfg": {"q": q, "v": 1, "p": True, "h": True}})
    return out


@core.guard
def judge(case):
    out = core.Outcome()
    if case.get("isolated"):
        if _KILLED[0] >= 2:  # the verdict is settled; do not spend 10 s on every remaining case
            out.nontrivial = False
            return out
        tag, val = core.in_child_timeout(_isolated, 10, case)
        if tag == "timeout":
            _KILLED[0] += 1
            out.bad("nontermination:killed", f"iteration over {case.get('stream')} had not finished after "
                    f"10 s and could only be stopped by killing the process")
        elif tag == "died":
            out.bad("foreign-exception:process-died", f"iteration over {case.get('stream')} killed the interpreter")
        else:
            out.violations, out.obs = list(val[0]), val[1]
        return out
    if case.get("watchdog"):
        try:
            core.watchdog(20, _judge_iter, case, out)
        except core.WatchdogTimeout:
            out.bad("nontermination:watchdog", f"iteration over {case.get('stream')} hangs")
        return out
    if case["kind"] == "stream":
        judge_stream(case, out)
    elif case["kind"] == "sockiter":
        _judge_sockiter(case, out)
    elif case["kind"] == "iter":
        _judge_iter(case, out)
    else:
        judge_bytes(case, out)
    return out


def _judge_iter(case, out):
    """The iterator protocol itself (for ... in reader) over a plain BytesIO."""
    import io  # pylint: disable=import-outside-toplevel

    from pyrtcm import RTCMReader  # pylint: disable=import-outside-toplevel

    cfg = case["cfg"]
    lib = H.lib_exceptions()
    if case.get("stream_type") == "bytearray":
        # a file-like object whose read()/readline() return bytearray (recv_into / readinto style)
        from mc.doubles import TypedStream  # pylint: disable=import-outside-toplevel

        stream = TypedStream(case["source"], None, bytearray, faults=False)
    elif case.get("stream_type") == "buffered-raw":
        # an io stream that is NOT seekable although it has seek()/tell() attributes (pipe, device)
        from mc.doubles import DribbleRaw  # pylint: disable=import-outside-toplevel

        stream = io.BufferedReader(DribbleRaw(case["source"], 7), buffer_size=16)
    else:
        stream = io.BytesIO(case["source"])
    rdr = RTCMReader(stream, validate=cfg["v"], quitonerror=cfg["q"],
                     parsed=cfg["p"], errorhandler=(lambda e: None) if cfg.get("h", True) else None)
    n, events = 0, []
    limit = len(case["source"]) + 8
    while True:
        n += 1
        if n > limit:
            out.bad("nontermination", f"iteration over {case.get('stream')} did not stop")
            break
        try:
            next(rdr)
            events.append("item")
        except StopIteration:
            events.append("stop")
            break
        except lib as err:
            events.append("lib:" + type(err).__name__)
            if cfg["q"] in (0, 1):
                out.bad("iterator-raises-in-nonraise-mode",
                        f"next() raised {type(err).__name__} under quitonerror={cfg['q']} on "
                        f"{case.get('stream')}")
                break
        except Exception as err:  # pylint: disable=broad-except
            events.append("foreign")
            out.bad(f"foreign-exception:next:{type(err).__name__}",
                    f"next() raised {type(err).__name__}: {err} on stream {case.get('stream')} "
                    f"(quitonerror={cfg['q']}, validate={cfg['v']}, parsed={cfg['p']})")
            break
    out.obs = core.h64(repr((case.get("stream"), sorted(cfg.items()), events)))
    out.nontrivial = any(e != "item" and e != "stop" for e in events) or True


def _judge_sockiter(case, out):
    """
    The iterator over a real socket subclass (so that the library's own SocketWrapper is in the
    path), plain or chunked-encoded, the peer closing / timing out wherever the case says.
    """
    from pyrtcm import RTCMReader  # pylint: disable=import-outside-toplevel
    from mc.doubles import NonTermination, SegSocket  # pylint: disable=import-outside-toplevel

    cfg = case["cfg"]
    lib = H.lib_exceptions()
    wire = case["wire"]
    sock = SegSocket(wire, case.get("segs", ()),
                     {int(k): v for k, v in case.get("faults", {}).items()})
    name = (f"{case.get('stream')} over a socket (encoding={case.get('encoding', 0)}, "
            f"{len(wire)} wire bytes, segments {case.get('segs', [])[:6]}, faults {case.get('faults', {})})")
    events = []
    try:
        rdr = RTCMReader(sock, validate=cfg["v"], quitonerror=cfg["q"], parsed=cfg["p"],
                         errorhandler=(lambda e: None), encoding=case.get("encoding", 0))
        for _ in range(len(wire) + 9):
            try:
                next(rdr)
                events.append("item")
            except StopIteration:
                events.append("stop")
                break
            except lib as err:
                events.append("lib:" + type(err).__name__)
                if cfg["q"] in (0, 1):
                    out.bad("iterator-raises-in-nonraise-mode",
                            f"next() raised {type(err).__name__} under quitonerror={cfg['q']} on {name}")
                    break
        else:
            out.bad("nontermination", f"iteration over {name} did not stop")
    except NonTermination:
        out.bad("nontermination", f"iteration over {name} keeps polling the socket (recv budget exceeded)")
    except RecursionError:
        out.bad("foreign-exception:next:RecursionError", f"RecursionError on {name}")
    except Exception as err:  # pylint: disable=broad-except
        out.bad(f"foreign-exception:next:{type(err).__name__}",
                f"next() raised {type(err).__name__}: {err} on {name} (quitonerror={cfg['q']})")
    finally:
        sock.close()
    out.obs = core.h64(repr((case.get("stream"), cfg["q"], case.get("encoding", 0), events)))
    out.nontrivial = True


def _chunked(data, sizes):
    """RFC 9112 chunked coding of ``data`` with the given chunk sizes (cyclic), last-chunk included."""
    out, pos, k = b"", 0, 0
    while pos < len(data):
        n = sizes[k % len(sizes)]
        k += 1
        part = data[pos:pos + n]
        pos += len(part)
        out += f"{len(part):x}".encode() + b"\r\n" + part + b"\r\n"
    return out + b"0\r\n\r\n"


def sock_cases(tier):
    alpha = items.full_alphabet(tier)
    cfgs = [{"q": q, "v": 1, "p": True, "h": True} for q in (0, 1, 2)]
    out = []
    seqs = []
    for d in (1, 2):
        for combo in itertools.product(alpha, repeat=d):
            data = b"".join(i["data"] for i in combo)
            if len(data) <= 200:
                seqs.append(("+".join(i["name"] for i in combo), data))
    for name, data in seqs:
        for cfg in cfgs:
            out.append({"kind": "sockiter", "stream": name, "wire": data, "cfg": cfg})
            out.append({"kind": "sockiter", "stream": name, "wire": data, "cfg": cfg,
                        "segs": [1] * len(data)})
    # the peer closes / times out anywhere: every prefix of single items and of some mixes,
    # plain and chunked (so that the stream may end inside a size line, a body or a terminator)
    singles = [(i["name"], i["data"]) for i in alpha if len(i["data"]) <= 48]
    mixes = [("F2+nmeaG+F19", items.concat(["F2", "nmeaG", "F19"])),
             ("nmeaG+ubx0+F2", items.concat(["nmeaG", "ubx0", "F2"])),
             ("dmgcrc+D3+nmeaP", items.concat(["dmgcrc", "D3", "nmeaP"]))]
    for name, data in singles + mixes:
        for cut in range(0, len(data) + 1):
            for cfg in cfgs:
                out.append({"kind": "sockiter", "stream": f"{name}[:{cut}]", "wire": data[:cut], "cfg": cfg})
                if cut and cfg["q"] == 1:
                    out.append({"kind": "sockiter", "stream": f"{name}[:{cut}]/1", "wire": data[:cut],
                                "cfg": cfg, "segs": [1] * cut})
        for sizes in ([len(data) or 1], [3], [1, 17]):
            enc = _chunked(data, sizes)
            for cut in range(0, len(enc) + 1):
                for cfg in cfgs[:2] if sizes != [3] else cfgs:
                    out.append({"kind": "sockiter", "stream": f"chunked{sizes}:{name}[:{cut}]",
                                "wire": enc[:cut], "cfg": cfg, "encoding": 1})
                if cut % 3 == 1:
                    out.append({"kind": "sockiter", "stream": f"chunked{sizes}:{name}[:{cut}]/1",
                                "wire": enc[:cut], "cfg": cfgs[1], "encoding": 1, "segs": [1] * cut})
        # a timeout / OS error instead of the k-th receive (the wrapper reports end of data)
        for k in range(0, 4):
            for fault in ("timeout", "oserror"):
                out.append({"kind": "sockiter", "stream": f"{name}@{fault}{k}", "wire": data, "cfg": cfgs[1],
                            "segs": [5] * 40, "faults": {k: fault}})
                out.append({"kind": "sockiter", "stream": f"chunked:{name}@{fault}{k}",
                            "wire": _chunked(data, [7]), "cfg": cfgs[0], "segs": [5] * 60,
                            "faults": {k: fault}, "encoding": 1})
    # hostile chunk-size lines (a finite stream is a finite stream, whatever the peer sends)
    f2 = items.frames()["F2"]["data"]
    good = f"{len(f2):x}".encode() + b"\r\n" + f2 + b"\r\n"
    for line in (b"ffffffffffffffffffff", b"7fffffffffffffff", b"8000000000000000", b"ffffffffffffffff",
                 b"7fffffff", b"80000000", b"-5", b"-0", b"+3", b"0x3", b" 3 ", b"1_0", b"", b"zz", b"3;ext=1",
                 b"00000003", b"FFFFFFFF", b"\x00", b"3\r", b"\xff\xfe"):
        for body in (b"abc\r\n", b"", b"abc"):
            for pre in (b"", good):
                wire = pre + line + b"\r\n" + body + good + b"0\r\n\r\n"
                for enc in (1, 3, 5, 9, 7, 11, 13, 15):  # "can be OR'd": also several compressions at once
                    for cfg in cfgs:
                        out.append({"kind": "sockiter", "stream": f"chunksize:{line!r}/{len(body)}/{len(pre)}",
                                    "wire": wire, "cfg": cfg, "encoding": enc})
                    out.append({"kind": "sockiter", "stream": f"chunksize:{line!r}/{len(body)}/{len(pre)}/1",
                                "wire": wire, "cfg": cfgs[1], "encoding": enc, "segs": [1] * len(wire)})
                    out.append({"kind": "sockiter", "stream": f"chunksize:{line!r}/{len(body)}/{len(pre)}/7",
                                "wire": wire, "cfg": cfgs[0], "encoding": enc, "segs": [7] * len(wire)})
    # complete chunks whose COMPRESSED body is cut short / damaged (gzip, zlib, raw deflate)
    import gzip  # pylint: disable=import-outside-toplevel
    import zlib  # pylint: disable=import-outside-toplevel

    plain = f2 * 3
    for enc, blob in ((3, gzip.compress(plain, mtime=0)), (5, zlib.compress(plain)),
                      (9, zlib.compressobj(wbits=-15).compress(plain) + zlib.compressobj(wbits=-15).flush()),
                      (7, gzip.compress(plain, mtime=0)), (15, zlib.compress(plain))):
        bodies = [blob[:k] for k in range(0, len(blob))] + [blob + b"\x00", blob[:-1] + b"\xff", blob[1:]]
        for k, body in enumerate(bodies):
            wire = f"{len(body):x}".encode() + b"\r\n" + body + b"\r\n"
            for tail in (b"", good + b"0\r\n\r\n"):
                for cfg in cfgs:
                    out.append({"kind": "sockiter", "stream": f"enc{enc}:body{k}/{len(tail)}", "wire": wire + tail,
                                "cfg": cfg, "encoding": enc})
                out.append({"kind": "sockiter", "stream": f"enc{enc}:body{k}/{len(tail)}/late",
                            "wire": good + wire + tail, "cfg": cfgs[1], "encoding": enc,
                            "segs": [len(good)] + [len(wire)]})
    return out


# ---------------------------------------------------------------------------
def byte_cases(tier):
    out = []
    out.append({"kind": "short", "entry": "both", "data": b""})
    for b in range(256):
        out.append({"kind": "short", "entry": "both", "data": bytes([b])})
    lens = [2, 3, 4] if tier == "quick" else [2, 3, 4, 5, 6, 7, 8, 19, 64, 1023]
    fills = [0x00, 0xFF, 0xAA]
    for num in range(4096):
        for ln in lens:
            for f in fills:
                data = ((num << 4) | (f & 0xF)).to_bytes(2, "big") + bytes([f]) * (ln - 2)
                out.append({"kind": "hdr", "entry": "both", "data": data})
    for sub in range(256):
        for ver in (0, 7):
            v, _ = pinned.header(4076, sub, ver)
            for ln in ([3, 4] if tier == "quick" else range(3, 9)):
                for f in fills:
                    data = ((v << 1) | (f & 1)).to_bytes(3, "big") + bytes([f]) * (ln - 3)
                    out.append({"kind": "hdr", "entry": "both", "data": data})
        out.append({"kind": "hdr", "entry": "both", "data": (0xFEC0 | (sub >> 7)).to_bytes(2, "big")})
    # short / odd buffers for the static parser
    for ln in range(0, 13):
        for f in (0x00, 0xFF, 0xD3):
            out.append({"kind": "buf", "entry": "parse", "data": bytes([f]) * ln})
            out.append({"kind": "buf", "entry": "parse", "data": (b"\xd3\x00" + bytes([max(0, ln - 6)])
                                                                  + bytes([f]) * ln)[:ln]})
    return out


def corpus_cases(tier):
    out = []
    corp = [c for c in corpus.build(tier)]
    fields, pdefs = pinned.load_tables()
    for it in corp:
        p = it["payload"]
        cuts = range(0, len(p)) if len(p) <= 80 or tier == "thorough" else \
            list(range(0, 40)) + list(range(40, len(p), 9))
        for cut in cuts:
            out.append({"kind": "trunc", "entry": "both", "data": p[:cut], "name": it["name"]})
        if it["kind"] == "ok" and it["shape"] is not None:
            # maximal counters / full masks: overwrite every structural field with ones, keep length
            try:
                occs, nbits = R.layout(it["identity"], R.Valuation(it["shape"], "fp"))
            except (R.BadDefinition, R.TooLong):
                continue
            v = int.from_bytes(p, "big")
            total = len(p) * 8
            for o in occs:
                if o.role == "struct" and o.width:
                    v |= ((1 << o.width) - 1) << (total - o.off - o.width)
            out.append({"kind": "maxcount", "entry": "both", "data": v.to_bytes(len(p), "big"),
                        "name": it["name"]})
            out.append({"kind": "maxcount", "entry": "both",
                        "data": v.to_bytes(len(p), "big") + b"\xff" * (1023 - len(p)),
                        "name": it["name"] + "+ff"})
    # spliced bodies: payload of A under the number of B (one representative per identity)
    reps = {}
    for it in corp:
        if it["kind"] == "ok":
            cur = reps.get(it["identity"])
            if cur is None or len(it["payload"]) > len(cur["payload"]):
                reps[it["identity"]] = it
    reps = list(reps.values())
    hdrs = []
    for it in reps:
        ident = it["identity"]
        hdrs.append((ident, it["payload"][:3] if ident.startswith("4076") else it["payload"][:2]))
    for a in reps:
        for ident, hdr in hdrs:
            if ident == a["identity"]:
                continue
            pa = a["payload"]
            if len(hdr) == 2:
                data = hdr[:1] + bytes([(hdr[1] & 0xF0) | (pa[1] & 0x0F)]) + pa[2:]
            else:
                data = hdr[:2] + bytes([(hdr[2] & 0xFE) | (pa[2] & 1)]) + pa[3:]
            out.append({"kind": "splice", "entry": "msg", "data": data,
                        "name": f"{a['name']}->{ident}"})
    return out


def long_runs(tier):
    """
    Deep histories of ONE reader: thousands of consecutive rejected items of one kind, then a
    good frame (an error path that costs stack depth or memory per rejected item).
    """
    f = items.frames()
    good = f["F19"]["data"]
    hostile = {h["name"]: h["data"] for h in items.hostile()}
    kinds = {
        "badcrc": hostile["dmgcrc"], "badbody": hostile["Fbadbody"], "short1": hostile["Fshort1"],
        "D3FF": hostile["D3FF"], "dollarX": hostile["dollarX"], "noise": b"\x00\xff",
        "nmea": items.nmea("G"), "ubx": items.ubx(b"\x01\x02"), "F0": f["F0"]["data"],
        "unknown-type": f["F2"]["data"],
    }
    out = []
    for n in ((1200, 3000) if tier == "quick" else (1200, 3000, 20000)):
        for name, unit in kinds.items():
            out.append((f"{n}x{name}+F19", unit * n + good))
    # several hundred DISTINCT valid frames through one reader (per-frame bookkeeping at capacity)
    for n in ((600,) if tier == "quick" else (600, 5000)):
        distinct = b"".join(pinned.frame(items.unknown_payload(4 + k % 7, 4009, k)) if k % 2 else
                            pinned.frame(f["F19"]["payload"][:2] + bytes([k >> 8 & 0x0F, k & 0xFF])
                                         + f["F19"]["payload"][4:]) for k in range(n))
        out.append((f"{n} distinct frames", distinct))
    return out


def stream_cases(tier):
    alpha = items.full_alphabet(tier)
    cfgs = [{"q": q, "v": v, "p": p, "h": h}
            for q in (0, 1, 2) for v in (0, 1) for p in (True, False) for h in (True, False)
            if not (h is False and q != 1)]
    depth = 2
    seqs = []
    for d in range(1, depth + 1):
        for combo in itertools.product(alpha, repeat=d):
            seqs.append(("+".join(i["name"] for i in combo), b"".join(i["data"] for i in combo)))
    f2 = items.frames()["F2"]
    for e in items.hostile_extra():
        seqs.append((e["name"], e["data"]))
        seqs.append((e["name"] + "+F2", e["data"] + f2["data"]))
        seqs.append(("F2+" + e["name"], f2["data"] + e["data"]))
    if tier == "thorough":
        small = [i for i in alpha if len(i["data"]) <= 40]
        for combo in itertools.product(small, repeat=3):
            seqs.append(("+".join(i["name"] for i in combo), b"".join(i["data"] for i in combo)))
    return seqs, cfgs


def _work(item):
    kind, payload, tier = item
    st = core.Stats()
    if kind == "bytes":
        for k, case in enumerate(payload):
            st.add(case, judge(case), keep_sample=(k == 0 and len(st.samples) < 1))
        return st
    seqs, cfgs, bound = payload
    for name, source in seqs:
        try:
            core.watchdog(15 + len(source) // 500, _explore_stream, name, source, cfgs, bound, tier, st)
        except core.WatchdogTimeout:
            out = core.Outcome()
            out.bad("nontermination:watchdog",
                    f"iterating stream {name} ({len(source)} B) under all configurations did not "
                    f"finish within the wall-clock backstop ({15 + len(source) // 500} s)")
            st.add({"kind": "iter", "stream": name, "source": source,
                    "cfg": {"q": 1, "v": 1, "p": True, "h": True}, "watchdog": True}, out)
            st.capped = True
            st.notes.append(f"work item abandoned after watchdog on stream {name}")
            break
    return st


def _explore_stream(name, source, cfgs, bound, tier, st):
    if True:
        for cfg in cfgs:
            case0 = {"kind": "iter", "stream": name, "source": source, "cfg": cfg}
            st.add(case0, judge(case0))
            if cfg.get("h", True):
                case1 = {"kind": "iter", "stream": name + " (bytearray stream)", "source": source,
                         "cfg": cfg, "stream_type": "bytearray"}
                st.add(case1, judge(case1))
                if cfg["v"] == 1 and cfg["p"]:
                    case2 = {"kind": "iter", "stream": name + " (non-seekable BufferedReader)",
                             "source": source, "cfg": cfg, "stream_type": "buffered-raw"}
                    st.add(case2, judge(case2))

            def body(ch, cfg=cfg, source=source, name=name):
                out = core.Outcome()
                rec = H.execute(source, (), validate=cfg["v"], quitonerror=cfg["q"],
                                parsed=cfg["p"], handler=cfg.get("h", True), chooser=ch)
                _stream_oracle(rec, cfg, out, name)
                return out

            b = bound if ((cfg["h"] and cfg["v"] == 1) or tier == "thorough") and bound else 0
            for choices, _devs, out in explore(body, bound=b):
                st.add({"kind": "stream", "stream": name, "source": source, "cfg": cfg,
                        "choices": list(choices)}, out)


def run(tier, seed, t0):
    work = []
    sc = sock_cases(tier)
    hl = hostile_line_cases()
    bc = byte_cases(tier) + corpus_cases(tier) + sc
    for ch in core.chunks(hl, 40):
        work.append(("bytes", ch, tier))
    for ch in core.chunks(bc, 1500):
        work.append(("bytes", ch, tier))
    seqs, cfgs = stream_cases(tier)
    for ch in core.chunks(seqs, 25 if tier == "quick" else 60):
        work.append(("streams", (ch, cfgs, 1), tier))
    longs = long_runs(tier)
    lcfgs = [c for c in cfgs if c["h"]]
    for one in longs:
        work.append(("streams", ([one], lcfgs, 0), tier))
    core.check_deterministic(judge, {"kind": "hdr", "entry": "both", "data": b"\x3e\xd0\x00\x01"})
    core.check_deterministic(judge, {"kind": "stream", "source": items.concat(["F2", "dmgcrc", "F19"]),
                                     "cfg": {"q": 2, "v": 1, "p": True, "h": True}, "choices": [0, 0, 1]})
    st = core.pmap(_work, work)
    st.extra["byte_cases"] = len(bc) - len(sc)
    st.extra["hostile_text_line_cases"] = len(hl)
    st.extra["socket_iteration_cases"] = len(sc)
    st.extra["streams"] = len(seqs)
    st.extra["reader_configurations"] = len(cfgs)
    return core.finish(
        "C04", tier, seed, LEVEL, st, RULE, t0,
        assumptions=[
            "termination is decided deterministically: a read() that makes more stream calls than "
            "4*len(source)+64 is reported (no wall-clock watchdog is needed)",
            "fault schedules: at most one non-default stream answer per execution",
        ],
    )
