"""
Reference encoder / decoder over pyrtcm's *definition tables*.

The tables (RTCM_DATA_FIELDS, RTCM_PAYLOADS_GET*, exported publicly by the
package) are the input language of pyrtcm's interpreter.  This module gives
them an independent semantics, written from the property texts and the README
and sharing no code with rtcmmessage.py:

* fields are laid out MSB first in definition order;
* a definition value that is a string is one field; a tuple (spec, dict) is a
  group: spec int = fixed repeat, spec str = repeat count held by the named,
  earlier decoded attribute ('+n' = append the first n current group indices to
  that name), spec tuple (name, value) = present iff attribute == value;
* attribute names are key + one '_NN' suffix per enclosing repeat level;
* raw bits are read as unsigned (BIT/BITX/UINT), two's complement (INT),
  sign-magnitude (SNT) or a character (CHA/STR); multiplied by the resolution
  iff it is neither 0 nor 1; STR units are joined into one attribute;
* MSM: NSat/NSig/NCell are the popcounts of DF394/DF395/DF396, DF396 is
  NSat*NSig bits wide; 4076_201: layers = IDF035+1, coefficient counts follow
  from degree N and order M (cosine: sum_{m=0..M}(N-m+1), sine: same from m=1).

``layout(identity, shape, valuation)`` returns the field occurrences with bit
offsets, raw bits and expected decoded values; ``encode`` packs them.
"""

from __future__ import annotations

from dataclasses import dataclass

MAXBITS = 1023 * 8
DERIVED = ("PRN", "CELLPRN", "CELLSIG")
MSMCOUNTS = ("NSat", "NSig", "NCell")


class BadDefinition(Exception):
    """The definition table itself is malformed (reported under C10)."""


class TooLong(Exception):
    """The requested shape does not fit."""


@dataclass
class Occ:
    name: str  # attribute name incl. indices
    key: str  # data-field key
    idx: tuple
    off: int
    width: int
    typ: str
    res: object
    raw: int
    role: str  # plain | struct | ident
    ordinal: int

    @property
    def value(self):
        return decode(self.typ, self.width, self.res, self.raw)


def tables():
    """The tree's public tables."""
    import pyrtcm  # pylint: disable=import-outside-toplevel

    return (
        pyrtcm.RTCM_DATA_FIELDS,
        pyrtcm.RTCM_PAYLOADS_GET,
        pyrtcm.RTCM_PAYLOADS_GET_MSM,
        pyrtcm.RTCM_PAYLOADS_GET_IGS,
    )


def all_identities():
    """Every identity that has a payload definition, with the table it lives in."""
    _, std, msm, igs = tables()
    out = []
    for name, tbl in (("std", std), ("msm", msm), ("igs", igs)):
        for ident in tbl:
            if isinstance(ident, str):  # a key of another type can never be reached (C10 reports it)
                out.append((ident, name))
    return out


def definition(identity: str):
    """Definition by the documented range dispatch (MSM block, 4076 family, rest)."""
    _, std, msm, igs = tables()
    if identity.startswith("4076"):
        return igs.get(identity)
    if identity.isdigit() and 1070 <= int(identity) <= 1229:
        return msm.get(identity)
    return std.get(identity)


def decode(typ, width, res, raw):
    """Decoded value of raw bits of a field (independent of rtcmmessage.py)."""
    if typ == "INT":
        val = raw - (1 << width) if width and raw >> (width - 1) else raw
    elif typ == "SNT":
        mag = raw & ((1 << (width - 1)) - 1)
        val = -mag if raw >> (width - 1) else mag
    elif typ in ("CHA", "STR"):
        return chr(raw)
    else:
        val = raw
    if res not in (0, 1):
        val = val * res
    return val


def popcount(x):
    return bin(x).count("1")


def harm_counts(deg_raw, ord_raw):
    """(cosine, sine) coefficient counts for raw degree-1 / order-1 fields."""
    n, m = deg_raw + 1, ord_raw + 1
    cos = sum(n - k + 1 for k in range(0, m + 1))
    sin = sum(n - k + 1 for k in range(1, m + 1))
    return cos, sin


def struct_keys(pdict, acc=None):
    """Keys whose value steers the layout (counters, conditions, masks, degree/order)."""
    acc = acc if acc is not None else set()
    if not isinstance(pdict, dict):
        raise BadDefinition(f"group body is {type(pdict).__name__}, not dict: {pdict!r}")
    for _, adef in pdict.items():
        if isinstance(adef, tuple):
            if len(adef) != 2:
                raise BadDefinition(f"group tuple of length {len(adef)}")
            spec, body = adef
            if isinstance(spec, tuple):
                acc.add(spec[0].split("+")[0])
            elif isinstance(spec, str):
                acc.add(spec.split("+")[0])
            struct_keys(body, acc)
    acc.update({"DF394", "DF395", "DF396", "IDF035", "IDF037", "IDF038"})
    return acc


def fingerprint(ordinal, width, typ="UINT"):
    """Distinct, non-zero, not-all-ones where possible, derived from the ordinal."""
    if width <= 0:
        return 0
    mask = (1 << width) - 1
    v = ((ordinal + 1) * 2654435761 + 0x5BD1E995 * (ordinal // 7 + 1)) & mask
    if width >= 6:
        v = (v & ~0x3F) | ((ordinal * 5 + 3) & 0x3F) | 1
        v &= mask
    if v == 0:
        v = 1
    if typ in ("CHA", "STR"):
        v = 0x21 + (ordinal * 7) % 0x5D  # printable ASCII
    return v


class Valuation:
    """
    mode: 'fp' | 'zeros' | 'ones' | 'nul' | 'nulmix'; ``sets`` maps occurrence ordinal -> raw bits.
    Structural fields take their value from ``shape`` (by full attribute name,
    then by key), default 0.
    """

    def __init__(self, shape=None, mode="fp", sets=None):
        self.shape = shape or {}
        self.mode = mode
        self.sets = {int(k): v for k, v in (sets or {}).items()}

    def struct(self, name, key, width):
        if name in self.shape:
            v = self.shape[name]
        else:
            v = self.shape.get(key, 0)
        if isinstance(v, str):
            v = int(v, 0)
        if v >> width and width:
            raise TooLong(f"shape value {v} does not fit {name} ({width} bits)")
        return v

    def plain(self, ordinal, width, typ):
        if ordinal in self.sets:
            return self.sets[ordinal] & ((1 << width) - 1)
        if self.mode == "zeros":
            return 0x41 if typ == "STR" else 0
        if self.mode == "nul":  # truly all-zero bits: every text code unit is NUL
            return 0
        if self.mode == "nulmix" and typ == "STR":  # text with embedded NUL code units
            self._nstr = getattr(self, "_nstr", -1) + 1
            return 0 if self._nstr % 4 in (1, 2) else fingerprint(ordinal, width, typ)
        if self.mode == "ones":
            return (1 << width) - 1
        return fingerprint(ordinal, width, typ)


def layout(identity: str, val: Valuation, pdict=None, fields=None):
    """
    Walk the definition of ``identity`` -> list[Occ] (incl. zero-width derived
    label fields with role 'derived'), total bits.
    """
    if fields is None:
        fields, *_ = tables()
    if pdict is None:
        pdict = definition(identity)
    if pdict is None:
        raise BadDefinition(f"{identity}: no definition reachable by range dispatch")
    skeys = struct_keys(pdict)
    occs = []
    attrs = {}  # decoded structural values by attribute name
    state = {"off": 0, "nsat": None, "nsig": None, "ncell": None, "harm": {}}
    if identity.startswith("4076_"):
        num, sub = 4076, int(identity[5:])
    else:
        num, sub = int(identity), None

    def count_for(spec, idx):
        if isinstance(spec, bool):
            raise BadDefinition(f"bool group spec {spec!r}")
        if isinstance(spec, int):
            return spec
        if not isinstance(spec, str):
            raise BadDefinition(f"group spec {spec!r}")
        if spec == "NSat":
            n = state["nsat"]
        elif spec == "NCell":
            n = state["ncell"]
        elif spec == "NSig":
            n = state["nsig"]
        elif spec.startswith("_NHarmCoeff"):
            cos, sin = state["harm"].get(idx[:1], (None, None))
            n = cos if spec.endswith("C") else sin
        else:
            base = spec
            if "+" in spec:
                base, lv = spec.split("+")
                for i in range(int(lv)):
                    if i >= len(idx):
                        raise BadDefinition(f"{spec}: nesting level {lv} deeper than group stack")
                    base += f"_{idx[i]:02d}"
            if base not in attrs:
                raise BadDefinition(f"group count {spec!r} ({base}) refers to no earlier field")
            n = attrs[base]
            if base == "IDF035":
                n += 1
        if n is None:
            raise BadDefinition(f"group count {spec!r} not available yet")
        if not isinstance(n, int):
            raise BadDefinition(f"group count {spec!r} is not an integer ({n!r})")
        return n

    def single(key, idx):
        if key not in fields:
            raise BadDefinition(f"field {key!r} is not in the data-field table")
        typ, width, res, _ = fields[key]
        name = key + "".join(f"_{i:02d}" for i in idx)
        if key in DERIVED:
            occs.append(Occ(name, key, idx, state["off"], 0, typ, res, 0, "derived", len(occs)))
            return
        if key == "DF396":
            if state["nsat"] is None or state["nsig"] is None:
                raise BadDefinition("DF396 before DF394/DF395")
            width = state["nsat"] * state["nsig"]
        ordinal = len(occs)
        if key == "DF002":
            raw, role = num, "ident"
        elif key == "IDF002" and sub is not None and not idx:
            raw, role = sub, "ident"
        elif key in skeys:
            raw, role = val.struct(name, key, width), "struct"
        else:
            raw, role = val.plain(ordinal, width, typ), "plain"
        occ = Occ(name, key, idx, state["off"], width, typ, res, raw, role, ordinal)
        occs.append(occ)
        state["off"] += width
        if state["off"] > MAXBITS + 64 * 8:
            raise TooLong(identity)
        if role != "plain" and typ not in ("CHA", "STR"):
            attrs[name] = occ.value
        if key == "DF394":
            state["nsat"] = popcount(raw)
        elif key == "DF395":
            state["nsig"] = popcount(raw)
        elif key == "DF396":
            state["ncell"] = popcount(raw)
        elif key == "IDF038":
            deg = attrs.get("IDF037" + "".join(f"_{i:02d}" for i in idx))
            if deg is None:
                raise BadDefinition("IDF038 before IDF037")
            state["harm"][idx[:1]] = harm_counts(deg, raw)

    def walk(body, idx):
        if not isinstance(body, dict):
            raise BadDefinition(f"group body is {type(body).__name__}, not dict: {body!r}")
        for key, adef in body.items():
            if isinstance(adef, tuple):
                spec, sub_body = adef
                if isinstance(spec, tuple):
                    cname, cval = spec
                    if cname not in attrs:
                        raise BadDefinition(f"condition on {cname!r}, not decoded earlier")
                    if attrs[cname] == cval:
                        walk(sub_body, idx)
                else:
                    n = count_for(spec, idx)
                    for i in range(1, n + 1):
                        walk(sub_body, idx + (i,))
            elif isinstance(adef, str):
                single(key, idx)
            else:
                raise BadDefinition(f"definition of {key!r} is {type(adef).__name__}")

    walk(pdict, ())
    return occs, state["off"]


def encode(occs, nbits, pad_bit=0, extra=b""):
    """Pack occurrences MSB first; pad to a byte boundary with pad_bit; append extra bytes."""
    v = 0
    for o in occs:
        if o.width:
            v = (v << o.width) | (o.raw & ((1 << o.width) - 1))
    nbytes = (nbits + 7) // 8
    padn = nbytes * 8 - nbits
    v <<= padn
    if pad_bit:
        v |= (1 << padn) - 1
    return v.to_bytes(nbytes, "big") + extra


def expected(occs):
    """
    Ordered [(name, value)] the property demands, without the MSM derived
    labels/counts (C09's subject).  STR units are joined under the bare key.
    """
    out, strs = [], {}
    for o in occs:
        if o.role == "derived":
            continue
        if o.typ == "STR":
            if o.key not in strs:
                strs[o.key] = len(out)
                out.append([o.key, ""])
            out[strs[o.key]][1] += "" if o.raw == 0 else chr(o.raw)
        else:
            out.append([o.name, o.value])
    return [(n, v) for n, v in out]


def public_attrs(msg):
    """Public data attributes of a parsed message, in creation order."""
    return [(k, v) for k, v in vars(msg).items() if not k.startswith("_")]


def is_excluded(name):
    """MSM count and label attributes (compared by C09, not C03)."""
    base = name.split("_")[0]
    return name in MSMCOUNTS or base in DERIVED


def values_equal(a, b):
    """
    a = value observed, b = reference value.  Exact for strings and for integer references
    (an integer field must not lose precision through a float detour, however wide it is);
    a relative tolerance of 1e-12 only where the reference itself is a float (scaled fields).
    """
    if isinstance(a, str) or isinstance(b, str):
        return a == b
    if isinstance(a, bool) != isinstance(b, bool) and (isinstance(a, bool) or isinstance(b, bool)):
        return a == b
    if a == b:
        return True
    if isinstance(b, int) and isinstance(a, int):
        return False
    if isinstance(b, int) and abs(b) >= 2 ** 53:
        return False
    try:
        return abs(a - b) <= 1e-12 * max(abs(a), abs(b))
    except TypeError:
        return False


def build(identity, shape=None, mode="fp", sets=None, pad_bit=0, extra=b""):
    """Convenience: (payload, occs, nbits)."""
    occs, nbits = layout(identity, Valuation(shape, mode, sets))
    if nbits > MAXBITS:
        raise TooLong(f"{identity}: {nbits} bits")
    return encode(occs, nbits, pad_bit, extra), occs, nbits
