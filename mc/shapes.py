"""
Shape alphabet (DESIGN.md section 3): for each identity, the exhaustive list of
structural assignments (repeat counts, nested counts, condition flags, MSM
masks, 4076_201 layers/degree/order) drawn from small menus, enumerated with
the E1 explorer over the reference layout walk.
"""

from __future__ import annotations

from . import refmodel as R
from .explore import explore

MSM_SHAPES_Q = [
    # (sat mask, sig mask, cell mask)  -- IDs are 1-based, bit 1 = MSB
    (0, 0, 0),
    (1 << 63, 1 << 30, 1),  # sat 1, sig 2, the one cell
    (1 << 63, 1 << 30, 0),  # 1x1 with empty cell mask
    ((1 << 63) | (1 << 60) | 1, (1 << 30) | (1 << 16), 0b101101),  # 3x2
    ((1 << 62) | (1 << 1), (1 << 29) | (1 << 22) | 1, 0b111111),  # 2x3 full
]
MSM_SHAPES_T = MSM_SHAPES_Q + [
    ((1 << 63) | (1 << 31), (1 << 30) | (1 << 9), 0b0110),
    (1 << 10, 0b111 << 8, 0b010),
    ((1 << 64) - 1, 1 << 30, (1 << 64) - 1),  # 64 x 1 full
    (0xFF << 20, 0xFF << 8, (1 << 64) - 1),  # 8 x 8 full
    (0xFF << 20, 0xFF << 8, 0x8000000000000001),
    (0b11 << 40, (1 << 32) - 1, (1 << 64) - 1),  # 2 x 32 full
    (0, (1 << 32) - 1, 0),
    ((1 << 64) - 1, 0, 0),
]


def msm_shapes(tier):
    for sat, sig, cell in MSM_SHAPES_T if tier == "thorough" else MSM_SHAPES_Q:
        yield {"DF394": sat, "DF395": sig, "DF396": cell}
    # the same satellite / signal masks again with MORE cells than the shape before them had
    # (consecutive shapes are decoded in one process: state keyed without the cell mask shows)
    yield {"DF394": 1 << 63, "DF395": 1 << 30, "DF396": 1}
    yield {"DF394": (1 << 63) | (1 << 60) | 1, "DF395": (1 << 30) | (1 << 16), "DF396": 0b000001}
    yield {"DF394": (1 << 63) | (1 << 60) | 1, "DF395": (1 << 30) | (1 << 16), "DF396": 0b111111}


def _menu(key, width, depth, tier, shape, cond_keys):
    """Menu of raw values for a structural field (first entry = default)."""
    if key in cond_keys and width == 1:
        return [0, 1]
    if key == "IDF035":
        return [0, 1] if tier == "quick" else [0, 1, 2, 3]
    if key == "IDF037":
        layers = shape.get("IDF035", 0) + 1
        if tier == "quick":
            return [0, 1, 3] if layers == 1 else [0, 2]
        return list(range(16)) if layers == 1 else [0, 1, 2]
    if key == "IDF038":
        return None  # handled by caller (depends on degree)
    top = (1 << width) - 1
    if depth == 0:
        menu = [0, 1, 2] if tier == "quick" else [0, 1, 2, 3]
    else:
        menu = [0, 1, 2]
    return [v for v in menu if v <= top]


class _ChoosingValuation(R.Valuation):
    def __init__(self, ch, tier, cond_keys):
        super().__init__({}, "zeros")
        self.ch = ch
        self.tier = tier
        self.cond_keys = cond_keys

    def struct(self, name, key, width):
        depth = name.count("_") - key.count("_")
        if key == "IDF038":
            deg = self.shape.get("IDF037" + name[len(key):], 0)
            layers = self.shape.get("IDF035", 0) + 1
            if self.tier == "thorough" and layers == 1:
                menu = list(range(deg + 1))
            else:
                menu = sorted({0, deg // 2, deg})
        else:
            menu = _menu(key, width, depth, self.tier, self.shape, self.cond_keys)
        # nested counters under a large outer count: keep the product small
        if depth >= 1 and key not in ("IDF037", "IDF038"):
            outer = name.split("_")[-depth:]
            if int(outer[0]) > 2:
                menu = menu[:2]
        c = self.ch.choose(len(menu), name)
        v = menu[c]
        self.shape[name] = v
        return v


def _cond_keys(pdict, acc=None):
    acc = acc if acc is not None else set()
    if isinstance(pdict, dict):
        for adef in pdict.values():
            if isinstance(adef, tuple) and len(adef) == 2:
                spec, body = adef
                if isinstance(spec, tuple):
                    acc.add(spec[0])
                _cond_keys(body, acc)
    return acc


def index_stress_shapes(identity):
    """Shapes that produce three-digit group indices (one and two nesting levels)."""
    if identity == "4076_201":
        return [{"IDF035": 0, "IDF037": 15, "IDF038": 15}, {"IDF035": 0, "IDF037": 15, "IDF038": 12},
                {"IDF035": 1, "IDF037": 13, "IDF038": 13, "IDF037_02": 0, "IDF038_02": 0}]
    return []


MSM_STRESS = [
    # 4 x 32 with 110 cells (three-digit cell indices; fits up to MSM6), 64 x 2 with 100 cells
    {"DF394": 0xF << 57, "DF395": (1 << 32) - 1,
     "DF396": ((1 << 128) - 1) & ~int("1000000" * 18, 2)},
    {"DF394": (1 << 64) - 1, "DF395": (1 << 30) | (1 << 9),
     "DF396": ((1 << 128) - 1) & ~int("10000" * 25 + "000", 2) & ((1 << 128) - 1)},
]


def enumerate_shapes(identity, tier):
    """All shapes of the alphabet for one identity (list of dicts, simplest first)."""
    pdict = R.definition(identity)
    if pdict is None:
        raise R.BadDefinition(f"{identity}: no definition reachable by range dispatch")
    if "DF394" in pdict:
        return list(msm_shapes(tier)) + MSM_STRESS
    cond = _cond_keys(pdict)
    out = []

    def body(ch):
        val = _ChoosingValuation(ch, tier, cond)
        try:
            _, nbits = R.layout(identity, val, pdict)
        except R.TooLong:
            return None
        return (dict(val.shape), nbits)

    for _, _, obs in explore(body, bound=None, max_runs=20000):
        if obs is None:
            continue
        shape, nbits = obs
        if nbits <= R.MAXBITS:
            out.append(shape)
    out.sort(key=lambda s: (sum(s.values()), len(s), sorted(s.items())))
    out += [m for m in max_shapes(identity, pdict) if m not in out]
    out += [m for m in index_stress_shapes(identity) if m not in out]
    return out


def _fits(identity, shape, pdict):
    try:
        _, nbits = R.layout(identity, R.Valuation(shape, "zeros"), pdict)
    except R.TooLong:
        return False
    return nbits <= R.MAXBITS


def max_shapes(identity, pdict):
    """For each counter: the largest value that fits with the other counters minimal."""
    fields = R.tables()[0]
    out = []
    tops, inners = [], []

    def scan(body, depth):
        for adef in body.values():
            if isinstance(adef, tuple):
                spec, sub = adef
                if isinstance(spec, str) and spec.split("+")[0] in fields:
                    (tops if depth == 0 else inners).append(spec.split("+")[0])
                if isinstance(sub, dict):
                    scan(sub, depth + (0 if isinstance(spec, tuple) else 1))

    scan(pdict, 0)
    for key in dict.fromkeys(tops):
        width = fields[key][1]
        for v in range((1 << width) - 1, 0, -1):
            if _fits(identity, {key: v}, pdict):
                out.append({key: v})
                if v > 1 and inners:
                    for ik in dict.fromkeys(inners):
                        if _fits(identity, {key: v, ik: 1}, pdict):
                            out.append({key: v, ik: 1})
                break
    for ik in dict.fromkeys(inners):
        width = fields[ik][1]
        for ok in dict.fromkeys(tops):
            for v in range((1 << width) - 1, 0, -1):
                if _fits(identity, {ok: 1, ik: v}, pdict):
                    out.append({ok: 1, ik: v})
                    break
    # every counter large at the same time (halved until the payload fits): messages that are long
    # because SEVERAL groups are populated (e.g. a long name and several long links)
    allkeys = list(dict.fromkeys(tops + inners))
    if len(allkeys) >= 2:
        for num, den in ((1, 1), (1, 2), (1, 4), (1, 8), (1, 16)):
            shape = {k: max(1, ((1 << fields[k][1]) - 1) * num // den) for k in allkeys}
            if _fits(identity, shape, pdict):
                out.append(shape)
                break
    # de-duplicate
    seen, uniq = set(), []
    for s in out:
        k = tuple(sorted(s.items()))
        if k not in seen:
            seen.add(k)
            uniq.append(s)
    return uniq
