"""
E3 -- controlled two-thread scheduler (CHESS style, pre-emption bounded).

Two real threading.Thread objects run the bodies; only the holder of the baton
runs.  Scheduling points are the 'line' events (sys.settrace) -- or, with
granularity='opcode', the INSTRUCTION events of sys.monitoring -- raised in
frames whose code lives under the pyrtcm source directory.  At every point the
chooser decides: 0 = keep running, 1 = pre-empt (hand the baton to the other
thread, if it has not finished).  Enumerating all choice sequences with at most
b ones (mc.explore, deviation bound b) enumerates every schedule with at most
b pre-emptions.  A thread that finishes hands the baton over for free.
"""

from __future__ import annotations

import sys
import threading

from .core import SRC, Broken

_PREFIX = SRC.rstrip("/") + "/pyrtcm/"


class Run:
    def __init__(self, bodies, chooser, granularity="line", max_steps=200000):
        assert len(bodies) == 2
        self.bodies = bodies
        self.ch = chooser
        self.gran = granularity
        self.sems = [threading.Semaphore(0), threading.Semaphore(0)]
        self.done = [False, False]
        self.results = [None, None]
        self.steps = 0
        self.steps_by_thread = [0, 0]
        self.preemptions = []
        self.max_steps = max_steps
        self.error = None
        self.current = 0

    # -- scheduling point -------------------------------------------------
    def point(self, tid):
        self.steps += 1
        self.steps_by_thread[tid] += 1
        if self.steps > self.max_steps:
            self.error = "step budget exceeded"
            raise SystemExit
        other = 1 - tid
        if self.done[other]:
            return
        if self.ch.choose(2, "pt"):
            self.preemptions.append(self.steps)
            self.current = other
            self.sems[other].release()
            self.sems[tid].acquire()

    # -- settrace based ---------------------------------------------------
    def _tracer(self, tid):
        def local(frame, event, _arg):
            if event == "line":
                self.point(tid)
            return local

        def glob(frame, event, _arg):
            if event == "call" and frame.f_code.co_filename.startswith(_PREFIX):
                return local
            return None

        return glob

    def _thread(self, tid):
        self.sems[tid].acquire()
        try:
            if self.gran == "line":
                sys.settrace(self._tracer(tid))
            try:
                self.results[tid] = ("ok", self.bodies[tid]())
            except SystemExit:
                self.results[tid] = ("aborted", None)
            except BaseException as err:  # pylint: disable=broad-except
                self.results[tid] = ("exc", type(err).__name__, str(err)[:200])
            finally:
                sys.settrace(None)
        finally:
            self.done[tid] = True
            other = 1 - tid
            if not self.done[other]:
                self.current = other
                self.sems[other].release()

    def run(self):
        ts = [threading.Thread(target=self._thread, args=(i,), daemon=True) for i in (0, 1)]
        mon = None
        if self.gran == "opcode":
            mon = _Monitor(self)
            mon.start()
        try:
            for t in ts:
                t.start()
            self.sems[0].release()
            for t in ts:
                t.join(60)
                if t.is_alive():
                    raise Broken("scheduler deadlock / thread did not finish (harness bug)")
        finally:
            if mon:
                mon.stop()
        if self.error:
            raise Broken(self.error)
        return self.results


class _Monitor:
    """Bytecode-granularity scheduling points through sys.monitoring (Python >= 3.12)."""

    TOOL = 3

    def __init__(self, run):
        self.run = run
        self.mon = sys.monitoring
        self.tids = {}

    def start(self):
        m = self.mon
        try:
            m.use_tool_id(self.TOOL, "verif-sched")
        except ValueError:
            m.free_tool_id(self.TOOL)
            m.use_tool_id(self.TOOL, "verif-sched")
        ev = m.events

        def on_start(code, _off):
            if code.co_filename.startswith(_PREFIX):
                m.set_local_events(self.TOOL, code, ev.INSTRUCTION)
            return m.DISABLE if not code.co_filename.startswith(_PREFIX) else None

        def on_instr(code, _off):
            tid = self._tid()
            if tid is not None:
                self.run.point(tid)

        m.register_callback(self.TOOL, ev.PY_START, on_start)
        m.register_callback(self.TOOL, ev.INSTRUCTION, on_instr)
        m.set_events(self.TOOL, ev.PY_START)

    def _tid(self):
        name = threading.current_thread().name
        if name.startswith("verif-"):
            return int(name[-1])
        ident = threading.get_ident()
        return self.tids.get(ident)

    def stop(self):
        m = self.mon
        m.set_events(self.TOOL, 0)
        m.register_callback(self.TOOL, m.events.PY_START, None)
        m.register_callback(self.TOOL, m.events.INSTRUCTION, None)
        m.free_tool_id(self.TOOL)


def execute(bodies, chooser, granularity="line"):
    """One controlled execution -> (results, steps_by_thread, preemption steps)."""
    r = Run(bodies, chooser, granularity)
    if granularity == "opcode":
        # name the threads so that the monitor can tell them apart
        orig = r._thread

        def named(tid):
            threading.current_thread().name = f"verif-{tid}"
            orig(tid)

        r._thread = named
    res = r.run()
    return res, tuple(r.steps_by_thread), tuple(r.preemptions)


def execute_cold(make_bodies, choices, granularity="line", post=None):
    """
    One controlled execution in a freshly forked child of the calling process (which must not
    have exercised the code under test itself), followed -- in the same child -- by ``post()``.
    Returns (results, steps_by_thread, preemptions, number of choice points, post result).
    Lazily initialised library state is therefore cold at the start of EVERY schedule.
    """
    import os  # pylint: disable=import-outside-toplevel
    import pickle  # pylint: disable=import-outside-toplevel

    from .explore import Chooser  # pylint: disable=import-outside-toplevel

    rfd, wfd = os.pipe()
    pid = os.fork()
    if pid == 0:
        code = 0
        try:
            os.close(rfd)
            ch = Chooser(choices)
            try:
                res, steps, pre = execute(make_bodies(), ch, granularity)
                after = post() if post is not None else None
                blob = pickle.dumps(("ok", res, steps, pre, len(ch.trace), after))
            except BaseException as err:  # pylint: disable=broad-except
                blob = pickle.dumps(("err", f"{type(err).__name__}: {err}"))
            with os.fdopen(wfd, "wb") as fh:
                fh.write(blob)
        except BaseException:  # pylint: disable=broad-except
            code = 1
        finally:
            os._exit(code)  # pylint: disable=protected-access
    os.close(wfd)
    with os.fdopen(rfd, "rb") as fh:
        blob = fh.read()
    os.waitpid(pid, 0)
    if not blob:
        raise Broken("cold child died without a result")
    out = pickle.loads(blob)
    if out[0] != "ok":
        raise Broken(f"cold child failed: {out[1]}")
    return out[1:]
