"""
Pinned reference data that must NOT be derived from the tree under test.

Provenance marks: X = cross-checked against independently known facts of
RTCM 10403.3 / IGS SSR v1 / RTKLIB (written from memory of those documents);
S = snapshot of the pinned commit (the standard text is not available in the
sealed sandbox), i.e. a regression pin.
"""

# ---------------------------------------------------------------------------
# CRC-24Q, two independent implementations (X: RTCM 10403.3 3.1.1 / Qualcomm)
# ---------------------------------------------------------------------------
CRC24Q_POLY = 0x1864CFB


def crc24q_longdiv(data: bytes) -> int:
    """Polynomial long division of data(x) * x^24 by the generator on a Python integer."""
    n = len(data) * 8 + 24
    v = int.from_bytes(data, "big") << 24
    for bit in range(n - 1, 23, -1):
        if v >> bit & 1:
            v ^= CRC24Q_POLY << (bit - 24)
    return v


def _mk_table():
    tbl = []
    for i in range(256):
        c = i << 16
        for _ in range(8):
            c <<= 1
            if c & 0x1000000:
                c ^= CRC24Q_POLY
        tbl.append(c & 0xFFFFFF)
    return tbl


_TBL = _mk_table()


def crc24q_table(data: bytes) -> int:
    """Table-driven CRC-24Q (the RTKLIB / GPSD form)."""
    crc = 0
    for b in data:
        crc = ((crc << 8) & 0xFFFFFF) ^ _TBL[(crc >> 16) ^ b]
    return crc


def frame(payload: bytes) -> bytes:
    """Reference RTCM3 transport frame around a payload of <= 1023 bytes."""
    assert len(payload) <= 1023
    body = b"\xd3" + len(payload).to_bytes(2, "big") + payload
    return body + crc24q_table(body).to_bytes(3, "big")


def frame_ok(raw: bytes) -> bool:
    """Reference well-formedness test of a complete RTCM3 frame."""
    return (
        len(raw) >= 6
        and raw[0] == 0xD3
        and raw[1] & 0xFC == 0
        and ((raw[1] & 3) << 8 | raw[2]) == len(raw) - 6
        and crc24q_table(raw) == 0
    )


def ref_identity(payload: bytes) -> str:
    """Identity per the property text: 12-bit number, 4076 + 3-digit 8-bit sub-type."""
    bits = int.from_bytes(payload[:3].ljust(3, b"\0"), "big")
    num = bits >> 12
    if num == 4076:
        sub = (bits >> 1) & 0xFF  # after the 3-bit IGS SSR version
        return f"4076_{sub:03d}"
    return str(num)


def header(num: int, sub: int = None, ver: int = 0) -> int:
    """(value, nbits) of the identity header."""
    if sub is None:
        return num, 12
    return (num << 11) | (ver << 8) | sub, 23


# ---------------------------------------------------------------------------
# implemented identities at the pinned commit (S) -- used as a floor: each of
# these must remain decodable.  New identities in the tree are accepted.
# ---------------------------------------------------------------------------
MSM_BASES = {107: "GPS", 108: "GLONASS", 109: "GALILEO", 110: "SBAS", 111: "QZSS",
             112: "BEIDOU", 113: "NAVIC"}
MSM_NUMBERS = [b * 10 + k for b in MSM_BASES for k in range(1, 8)]  # 49 numbers (X)
MSM_EPOCH = {107: "DF004", 108: "DF034", 109: "DF248", 110: "DF004", 111: "DF428",
             112: "DF427", 113: "DF546"}  # X (10403.3 MSM header tables)

STD_NUMBERS = (
    list(range(1001, 1018)) + list(range(1019, 1028)) + list(range(1029, 1036))
    + [1037, 1038, 1039, 1041, 1042, 1044, 1045, 1046]
    + list(range(1057, 1069)) + [1230] + list(range(1300, 1306))
)
IGS_SUBTYPES = [b + k for b in (20, 40, 60, 80, 100, 120) for k in range(1, 8)] + [201]
IMPLEMENTED = (
    [str(n) for n in STD_NUMBERS] + [str(n) for n in MSM_NUMBERS]
    + [f"4076_{s:03d}" for s in IGS_SUBTYPES]
)

# ---------------------------------------------------------------------------
# MSM satellite / signal tables (X: RTCM 10403.3 tables 3.5-91 ... 3.5-108.3,
# identical to RTKLIB rtcm3.c msm_sig_gps/glo/gal/qzs/sbs/cmp/irn)
# ---------------------------------------------------------------------------
_SIG_GPS = ["", "1C", "1P", "1W", "", "", "", "2C", "2P", "2W", "", "",
            "", "", "2S", "2L", "2X", "", "", "", "", "5I", "5Q", "5X",
            "", "", "", "", "", "1S", "1L", "1X"]
_SIG_GLO = ["", "1C", "1P", "", "", "", "", "2C", "2P", "", "", "",
            "", "", "", "", "", "", "", "", "", "", "", "",
            "", "", "", "", "", "", "", ""]
_SIG_GAL = ["", "1C", "1A", "1B", "1X", "1Z", "", "6C", "6A", "6B", "6X", "6Z",
            "", "7I", "7Q", "7X", "", "8I", "8Q", "8X", "", "5I", "5Q", "5X",
            "", "", "", "", "", "", "", ""]
_SIG_QZS = ["", "1C", "", "", "", "", "", "", "6S", "6L", "6X", "",
            "", "", "2S", "2L", "2X", "", "", "", "", "5I", "5Q", "5X",
            "", "", "", "", "", "1S", "1L", "1X"]
_SIG_SBS = ["", "1C", "", "", "", "", "", "", "", "", "", "",
            "", "", "", "", "", "", "", "", "", "5I", "5Q", "5X",
            "", "", "", "", "", "", "", ""]
_SIG_BDS = ["", "2I", "2Q", "2X", "", "", "", "6I", "6Q", "6X", "", "",
            "", "7I", "7Q", "7X", "", "", "", "", "", "5D", "5P", "5X",
            "7D", "", "", "", "", "1D", "1P", "1X"]
_SIG_IRN = ["", "", "", "", "", "", "", "", "", "", "", "",
            "", "", "", "", "", "", "", "", "", "5A", "", "",
            "", "", "", "", "", "", "", ""]
RINEX_SIG = {107: _SIG_GPS, 108: _SIG_GLO, 109: _SIG_GAL, 110: _SIG_SBS, 111: _SIG_QZS,
             112: _SIG_BDS, 113: _SIG_IRN}
for _t in RINEX_SIG.values():
    assert len(_t) == 32


def rinex_code(base: int, sigid: int) -> str:
    """RINEX code of signal ID 1..32, '' if reserved."""
    return RINEX_SIG[base][sigid - 1]


def prn_label(base: int, satid: int):
    """
    PRN label of satellite-mask ID 1..64 under the constellation's numbering,
    or None if the ID is outside the defined range (X: 10403.3 DF394 notes;
    SBAS 120-158, QZSS 193-202; Galileo 51/52 = GIOVE-A/B).
    """
    if base in (107, 112):
        return f"{satid:03d}" if satid <= 63 else None
    if base == 108:
        return f"{satid:03d}" if satid <= 24 else None
    if base == 109:
        if satid <= 50:
            return f"{satid:03d}"
        return {51: "GIOVE-A", 52: "GIOVE-B"}.get(satid)
    if base == 110:
        return f"{satid + 119:03d}" if satid <= 39 else None
    if base == 111:
        return f"{satid + 192:03d}" if satid <= 10 else None
    if base == 113:
        return f"{satid:03d}" if satid <= 14 else None
    raise KeyError(base)


NA = "N/A"
