"""
Pinned reference data that must NOT be derived from the tree under test.

Provenance marks: X = cross-checked against independently known facts of
RTCM 10403.3 / IGS SSR v1 / RTKLIB (written from memory of those documents);
S = snapshot of the pinned commit (the standard text is not available in the
sealed sandbox), i.e. a regression pin.
"""

# ---------------------------------------------------------------------------
# CRC-24Q, two independent implementations (X: RTCM 10403.3 3.1.1 / Qualcomm)
# ---------------------------------------------------------------------------
CRC24Q_POLY = 0x1864CFB


def crc24q_longdiv(data: bytes) -> int:
    """Polynomial long division of data(x) * x^24 by the generator on a Python integer."""
    n = len(data) * 8 + 24
    v = int.from_bytes(data, "big") << 24
    for bit in range(n - 1, 23, -1):
        if v >> bit & 1:
            v ^= CRC24Q_POLY << (bit - 24)
    return v


def _mk_table():
    tbl = []
    for i in range(256):
        c = i << 16
        for _ in range(8):
            c <<= 1
            if c & 0x1000000:
                c ^= CRC24Q_POLY
        tbl.append(c & 0xFFFFFF)
    return tbl


_TBL = _mk_table()


def crc24q_table(data: bytes) -> int:
    """Table-driven CRC-24Q (the RTKLIB / GPSD form)."""
    crc = 0
    for b in data:
        crc = ((crc << 8) & 0xFFFFFF) ^ _TBL[(crc >> 16) ^ b]
    return crc


def frame(payload: bytes) -> bytes:
    """Reference RTCM3 transport frame around a payload of <= 1023 bytes."""
    if len(payload) > 1023:
        from .core import Broken  # pylint: disable=import-outside-toplevel

        raise Broken(f"reference frame() asked for a {len(payload)}-byte payload")
    body = b"\xd3" + len(payload).to_bytes(2, "big") + payload
    return body + crc24q_table(body).to_bytes(3, "big")


def frame_with_trailer(prefix: bytes, want: int, suffix: bytes = b"") -> bytes:
    """
    A valid frame whose payload is prefix + 3 solved bytes + suffix and whose CRC-24Q trailer is
    exactly ``want`` (CRC-24Q is linear, so the three free bytes are found by Gaussian
    elimination over GF(2); the map free bytes -> trailer is a bijection).
    """
    n = len(prefix) + 3 + len(suffix)
    hdr = b"\xd3" + n.to_bytes(2, "big")

    def crc_of(x):
        return crc24q_table(hdr + prefix + x.to_bytes(3, "big") + suffix)

    r0 = crc_of(0)
    cols = [crc_of(1 << i) ^ r0 for i in range(24)]
    target = want ^ r0
    # solve sum x_i cols[i] = target
    rows = [(cols[i], 1 << i) for i in range(24)]
    x = 0
    for bit in range(23, -1, -1):
        piv = next((k for k, (c, _m) in enumerate(rows) if c >> bit & 1), None)
        if piv is None:
            continue
        pc, pm = rows.pop(piv)
        rows = [((c ^ pc, m ^ pm) if c >> bit & 1 else (c, m)) for c, m in rows]
        if target >> bit & 1:
            target ^= pc
            x ^= pm
    out = hdr + prefix + x.to_bytes(3, "big") + suffix
    out += crc24q_table(out).to_bytes(3, "big")
    if target or out[-3:] != want.to_bytes(3, "big"):
        from .core import Broken  # pylint: disable=import-outside-toplevel

        raise Broken("frame_with_trailer: no solution")
    return out


def solve3(want: int) -> bytes:
    """The unique 3-byte string whose CRC-24Q is ``want`` (an error pattern in the trailer with
    that syndrome)."""
    cols = [crc24q_table((1 << i).to_bytes(3, "big")) for i in range(24)]
    rows = [(cols[i], 1 << i) for i in range(24)]
    x, target = 0, want
    for bit in range(23, -1, -1):
        piv = next((k for k, (c, _m) in enumerate(rows) if c >> bit & 1), None)
        if piv is None:
            continue
        pc, pm = rows.pop(piv)
        rows = [((c ^ pc, m ^ pm) if c >> bit & 1 else (c, m)) for c, m in rows]
        if target >> bit & 1:
            target ^= pc
            x ^= pm
    return x.to_bytes(3, "big")


def frame_ok(raw: bytes) -> bool:
    """Reference well-formedness test of a complete RTCM3 frame."""
    return (
        len(raw) >= 6
        and raw[0] == 0xD3
        and raw[1] & 0xFC == 0
        and ((raw[1] & 3) << 8 | raw[2]) == len(raw) - 6
        and crc24q_table(raw) == 0
    )


def ref_identity(payload: bytes) -> str:
    """Identity per the property text: 12-bit number, 4076 + 3-digit 8-bit sub-type."""
    bits = int.from_bytes(payload[:3].ljust(3, b"\0"), "big")
    num = bits >> 12
    if num == 4076:
        sub = (bits >> 1) & 0xFF  # after the 3-bit IGS SSR version
        return f"4076_{sub:03d}"
    return str(num)


def header(num: int, sub: int = None, ver: int = 0) -> int:
    """(value, nbits) of the identity header."""
    if sub is None:
        return num, 12
    return (num << 11) | (ver << 8) | sub, 23


# ---------------------------------------------------------------------------
# implemented identities at the pinned commit (S) -- used as a floor: each of
# these must remain decodable.  New identities in the tree are accepted.
# ---------------------------------------------------------------------------
MSM_BASES = {107: "GPS", 108: "GLONASS", 109: "GALILEO", 110: "SBAS", 111: "QZSS",
             112: "BEIDOU", 113: "NAVIC"}
MSM_NUMBERS = [b * 10 + k for b in MSM_BASES for k in range(1, 8)]  # 49 numbers (X)
MSM_EPOCH = {107: "DF004", 108: "DF034", 109: "DF248", 110: "DF004", 111: "DF428",
             112: "DF427", 113: "DF546"}  # X (10403.3 MSM header tables)

STD_NUMBERS = (
    list(range(1001, 1018)) + list(range(1019, 1028)) + list(range(1029, 1036))
    + [1037, 1038, 1039, 1041, 1042, 1044, 1045, 1046]
    + list(range(1057, 1069)) + [1230] + list(range(1300, 1306))
)
IGS_SUBTYPES = [b + k for b in (20, 40, 60, 80, 100, 120) for k in range(1, 8)] + [201]
IMPLEMENTED = (
    [str(n) for n in STD_NUMBERS] + [str(n) for n in MSM_NUMBERS]
    + [f"4076_{s:03d}" for s in IGS_SUBTYPES]
)

# ---------------------------------------------------------------------------
# MSM satellite / signal tables (X: RTCM 10403.3 tables 3.5-91 ... 3.5-108.3,
# identical to RTKLIB rtcm3.c msm_sig_gps/glo/gal/qzs/sbs/cmp/irn)
# ---------------------------------------------------------------------------
_SIG_GPS = ["", "1C", "1P", "1W", "", "", "", "2C", "2P", "2W", "", "",
            "", "", "2S", "2L", "2X", "", "", "", "", "5I", "5Q", "5X",
            "", "", "", "", "", "1S", "1L", "1X"]
_SIG_GLO = ["", "1C", "1P", "", "", "", "", "2C", "2P", "", "", "",
            "", "", "", "", "", "", "", "", "", "", "", "",
            "", "", "", "", "", "", "", ""]
_SIG_GAL = ["", "1C", "1A", "1B", "1X", "1Z", "", "6C", "6A", "6B", "6X", "6Z",
            "", "7I", "7Q", "7X", "", "8I", "8Q", "8X", "", "5I", "5Q", "5X",
            "", "", "", "", "", "", "", ""]
_SIG_QZS = ["", "1C", "", "", "", "", "", "", "6S", "6L", "6X", "",
            "", "", "2S", "2L", "2X", "", "", "", "", "5I", "5Q", "5X",
            "", "", "", "", "", "1S", "1L", "1X"]
_SIG_SBS = ["", "1C", "", "", "", "", "", "", "", "", "", "",
            "", "", "", "", "", "", "", "", "", "5I", "5Q", "5X",
            "", "", "", "", "", "", "", ""]
_SIG_BDS = ["", "2I", "2Q", "2X", "", "", "", "6I", "6Q", "6X", "", "",
            "", "7I", "7Q", "7X", "", "", "", "", "", "5D", "5P", "5X",
            "7D", "", "", "", "", "1D", "1P", "1X"]
_SIG_IRN = ["", "", "", "", "", "", "", "", "", "", "", "",
            "", "", "", "", "", "", "", "", "", "5A", "", "",
            "", "", "", "", "", "", "", ""]
RINEX_SIG = {107: _SIG_GPS, 108: _SIG_GLO, 109: _SIG_GAL, 110: _SIG_SBS, 111: _SIG_QZS,
             112: _SIG_BDS, 113: _SIG_IRN}
for _t in RINEX_SIG.values():
    assert len(_t) == 32


def rinex_code(base: int, sigid: int) -> str:
    """RINEX code of signal ID 1..32, '' if reserved."""
    return RINEX_SIG[base][sigid - 1]


def prn_label(base: int, satid: int):
    """
    PRN label of satellite-mask ID 1..64 under the constellation's numbering,
    or None if the ID is outside the defined range (X: 10403.3 DF394 notes;
    SBAS 120-158, QZSS 193-202; Galileo 51/52 = GIOVE-A/B).
    """
    if base in (107, 112):
        return f"{satid:03d}" if satid <= 63 else None
    if base == 108:
        return f"{satid:03d}" if satid <= 24 else None
    if base == 109:
        if satid <= 50:
            return f"{satid:03d}"
        return {51: "GIOVE-A", 52: "GIOVE-B"}.get(satid)
    if base == 110:
        return f"{satid + 119:03d}" if satid <= 39 else None
    if base == 111:
        return f"{satid + 192:03d}" if satid <= 10 else None
    if base == 113:
        return f"{satid:03d}" if satid <= 14 else None
    raise KeyError(base)


NA = "N/A"


# ---------------------------------------------------------------------------
# pinned layouts: snapshot of the definition structure (S), and hand-written
# bit-length formulas from RTCM 10403.3 / IGS SSR v1 (X)
# ---------------------------------------------------------------------------
_CLASS2TYPE = {"U": "UINT", "I": "INT", "S": "SNT", "C": "CHA", "T": "STR", "D": "PRN"}
_TABLES = None


def load_tables():
    """-> (fields, defs) in the same format as pyrtcm's tables (types by class)."""
    global _TABLES  # pylint: disable=global-statement
    if _TABLES is None:
        import json  # pylint: disable=import-outside-toplevel
        import os  # pylint: disable=import-outside-toplevel

        with open(os.path.join(os.path.dirname(__file__), "pinned_tables.json"),
                  encoding="utf-8") as fh:
            raw = json.load(fh)
        fields = {k: (_CLASS2TYPE[c], w, 0, k) for k, (c, w) in raw["fields"].items()}

        def dec(items):
            out = {}
            for key, v in items:
                if v == "F":
                    out[key] = key
                elif "cond" in v:
                    out[key] = ((v["cond"][0], v["cond"][1]), dec(v["body"]))
                else:
                    out[key] = (v["rep"], dec(v["body"]))
            return out

        _TABLES = (fields, {k: dec(v) for k, v in raw["defs"].items()})
    return _TABLES


def load_resolutions():
    """-> {data-field key: resolution} as snapshotted by tools/gen_pinned.py (regression pin)."""
    import json  # pylint: disable=import-outside-toplevel
    import os  # pylint: disable=import-outside-toplevel

    with open(os.path.join(os.path.dirname(__file__), "pinned_tables.json"), encoding="utf-8") as fh:
        raw = json.load(fh).get("res", {})
    return {k: (v if isinstance(v, int) else float.fromhex(v)) for k, v in raw.items()}


def _msm_len(level):
    sat = {1: 10, 2: 10, 3: 10, 4: 18, 5: 36, 6: 18, 7: 36}[level]
    cell = {1: 15, 2: 27, 3: 42, 4: 48, 5: 63, 6: 65, 7: 80}[level]
    return sat, cell


# X: (fixed bits, per-item bits[, per-inner-item bits]) written from the standards.
X_LENGTHS = {
    "1001": (64, 58), "1002": (64, 74), "1003": (64, 101), "1004": (64, 125),
    "1005": (152,), "1006": (168,), "1007": (40, 8), "1008": (48, 8),
    "1009": (61, 64), "1010": (61, 79), "1011": (61, 107), "1012": (61, 130),
    "1013": (70, 29), "1014": (117,), "1015": (76, 28), "1016": (76, 36), "1017": (76, 53),
    "1019": (488,), "1020": (360,), "1023": (578,), "1024": (590,), "1025": (196,),
    "1026": (234,), "1027": (258,), "1029": (72, 8), "1030": (56, 49), "1031": (53, 49),
    "1032": (156,), "1033": (72, 8), "1037": (73, 28), "1038": (73, 36), "1039": (73, 53),
    "1041": (482,), "1042": (511,), "1044": (485,), "1045": (496,), "1046": (504,),
    "1057": (68, 135), "1058": (67, 76), "1059": (67, 11, 19), "1060": (68, 205),
    "1061": (67, 12), "1062": (67, 28), "1063": (65, 134), "1064": (64, 75),
    "1065": (64, 10, 19), "1066": (65, 204), "1067": (64, 11), "1068": (64, 27),
}
for _b in (20, 40, 60, 80, 100, 120):
    X_LENGTHS[f"4076_{_b + 1:03d}"] = (79, 135)
    X_LENGTHS[f"4076_{_b + 2:03d}"] = (78, 76)
    X_LENGTHS[f"4076_{_b + 3:03d}"] = (79, 205)
    X_LENGTHS[f"4076_{_b + 4:03d}"] = (78, 28)
    X_LENGTHS[f"4076_{_b + 5:03d}"] = (78, 11, 19)
    X_LENGTHS[f"4076_{_b + 6:03d}"] = (80, 28, 32)
    X_LENGTHS[f"4076_{_b + 7:03d}"] = (78, 12)


def x_length(identity, counts):
    """
    Bit length by the hand-written formula, or None if this identity has none.
    counts: for simple types the list of top-level counter values (all groups
    have the same per-item size in the types listed: text/descriptor counters);
    for nested types a list of inner counts, one per outer item.
    """
    if identity.isdigit() and int(identity) in MSM_NUMBERS:
        nsat, nsig, ncell = counts
        sat, cell = _msm_len(int(identity) % 10)
        return 169 + nsat * nsig + nsat * sat + ncell * cell
    if identity == "1230":
        return 32 + 16 * sum(counts)
    if identity == "4076_201":
        # counts: list of (degree_raw, order_raw) per layer
        tot = 83
        for d, o in counts:
            n, m = d + 1, o + 1
            cos = (m + 1) * (n + 1) - m * (m + 1) // 2
            sin = cos - (n + 1)
            tot += 16 + 16 * (cos + sin)
        return tot
    f = X_LENGTHS.get(identity)
    if f is None:
        return None
    if len(f) == 1:
        return f[0]
    if len(f) == 2:
        return f[0] + f[1] * sum(counts)
    return f[0] + sum(f[1] + f[2] * inner for inner in counts)
