"""
Stream item alphabet (DESIGN.md section 3), simplest first.

Each item: dict(name, data, kind, payload) -- kind 'frame' means a valid RTCM3
frame (payload given), 'skip' a well-formed foreign item or inert noise,
'hostile' anything else.
"""

from __future__ import annotations

from . import pinned
from . import refmodel as R

NMEA_TALKERS = "VMPBDILGFSHREYACZTW"
_CACHE = {}


def _fp(n, k=0):
    out = bytearray((41 * i + 17 * k + 5) & 0xFF for i in range(n))
    for i, b in enumerate(out):
        if b in (0xD3, 0xB5, 0x24):
            out[i] = b ^ 0x08
    return bytes(out)


def unknown_payload(n, num=4000, k=0):
    """Unknown-type payload of n >= 2 bytes with no sync characters in it."""
    return ((num << 4) & 0xFFFF).to_bytes(2, "big") + _fp(n - 2, k)


def frame_item(name, payload):
    return {"name": name, "data": pinned.frame(payload), "kind": "frame", "payload": payload}


def nmea(talker="G", body=b"NGGA,1,2,3*55"):
    return b"$" + talker.encode() + body + b"\r\n"


def ubx(payload=b"", cls=0x01, mid=0x07):
    body = bytes([cls, mid]) + len(payload).to_bytes(2, "little") + payload
    ca = cb = 0
    for b in body:
        ca = (ca + b) & 0xFF
        cb = (cb + ca) & 0xFF
    return b"\xb5\x62" + body + bytes([ca, cb])


def frames():
    """Valid frame items by name."""
    if "frames" in _CACHE:
        return _CACHE["frames"]
    p1005, _, _ = R.build("1005", {}, "fp")
    pmsm, _, _ = R.build("1071", {"DF394": 1 << 63, "DF395": 1 << 30, "DF396": 1}, "fp")
    out = {
        "F2": frame_item("F2", unknown_payload(2)),
        "F2b": frame_item("F2b", unknown_payload(2, 4001)),
        "F19": frame_item("F19", p1005),
        "Fmsm": frame_item("Fmsm", pmsm),
        "Fsync": frame_item("Fsync", b"\xd3\x00\x02\xb5\x62\x24\x47\x0a\xd3"),
        "F0": frame_item("F0", b""),
        "F1": frame_item("F1", b"\x3e"),
        "F255": frame_item("F255", unknown_payload(255, 4002)),
        "F256": frame_item("F256", unknown_payload(256, 4003)),
        "F1023": frame_item("F1023", unknown_payload(1023, 4004)),
    }
    # a frame whose payload is itself a complete valid frame (tunnelled / nested traffic):
    # outer message number 0xD30 = 3376
    out["Fnested"] = frame_item("Fnested", pinned.frame(p1005))
    # two valid frames of equal length with the SAME CRC trailer but different payloads and
    # message numbers (CRC-24Q is linear: XOR a multiple of the generator into the payload)
    pc = unknown_payload(8, 4030)
    fc1 = pinned.frame(pc)
    shift = 24 + 64 - 25  # the 25-bit generator lands on the top bits of the payload
    fc2 = (int.from_bytes(fc1, "big") ^ (pinned.CRC24Q_POLY << shift)).to_bytes(len(fc1), "big")
    if not (pinned.frame_ok(fc2) and fc2[-3:] == fc1[-3:] and fc2[:3] == fc1[:3] and fc2 != fc1):
        from .core import Broken  # pylint: disable=import-outside-toplevel

        raise Broken("CRC collision pair construction failed")
    out["Fcol1"] = frame_item("Fcol1", pc)
    out["Fcol2"] = {"name": "Fcol2", "data": fc2, "kind": "frame", "payload": fc2[3:-3]}
    # two MSM frames with identical satellite/signal masks and different cell masks
    sat2, sig2 = (1 << 63) | (1 << 60), (1 << 30) | (1 << 22)
    ma, _, _ = R.build("1074", {"DF394": sat2, "DF395": sig2, "DF396": 0b1010}, "fp")
    mb, _, _ = R.build("1074", {"DF394": sat2, "DF395": sig2, "DF396": 0b1111}, "fp")
    out["FmsmA"] = frame_item("FmsmA", ma)
    out["FmsmB"] = frame_item("FmsmB", mb)
    # frames whose CRC trailer holds bytes that other layers react to: line terminators, sync
    # characters, all zero, all ones (built by solving for three payload bytes)
    pre = ((4050 << 4) & 0xFFFF).to_bytes(2, "big") + b"\x11\x22"
    for nm, tr in (("Fcrc0d0a", 0x770D0A), ("Fcrc0a", 0x12340A), ("Fcrc24", 0x563424), ("FcrcB5", 0x1278B5),
                   ("FcrcD3", 0x4567D3), ("Fcrc000", 0x000000), ("FcrcFFF", 0xFFFFFF),
                   ("FcrcD300", 0xD30002)):
        fr = pinned.frame_with_trailer(pre, tr, b"\x33")
        out[nm] = {"name": nm, "data": fr, "kind": "frame", "payload": fr[3:-3]}
    # a 4076 frame with a sub-type that has no definition (reserved for a constellation)
    v4076, _ = pinned.header(4076, 250, 1)
    out["F4076unk"] = frame_item("F4076unk", (v4076 << 1).to_bytes(3, "big") + _fp(9, 3))
    m64, _, _ = R.build("1077", {"DF394": (1 << 62) | 1, "DF395": 1 << 30, "DF396": 0b11}, "fp")
    out["Fmsm64"] = frame_item("Fmsm64", m64)  # satellite ID 64 (last mask bit) present
    _CACHE["frames"] = out
    return out


def wellformed(tier="quick"):
    """Well-formed items (C02 alphabet)."""
    f = frames()
    out = [
        {"name": "n00", "data": b"\x00", "kind": "skip"},
        f["F2"], f["F19"],
        {"name": "nmeaG", "data": nmea("G"), "kind": "skip"},
        {"name": "ubx0", "data": ubx(b""), "kind": "skip"},
        f["F0"], f["F1"], f["Fsync"], f["Fmsm"],
        {"name": "ubx8", "data": ubx(b"\xd3\x00\xb5\x62\x24\x47\x0a\xd3"), "kind": "skip"},
        {"name": "nFF0A62", "data": b"\xff\x0a\x62", "kind": "skip"},
        {"name": "nmeaP", "data": nmea("P", b"UBX,00,1*00"), "kind": "skip"},
        f["Fnested"], f["Fcol1"], f["Fcol2"], f["FmsmA"], f["FmsmB"], f["Fmsm64"],
        f["Fcrc0d0a"], f["Fcrc24"], f["F4076unk"],
    ]
    if tier == "thorough":
        out += [f["Fcrc0a"], f["FcrcB5"], f["FcrcD3"], f["Fcrc000"], f["FcrcFFF"], f["FcrcD300"]]
    if tier == "thorough":
        out += [f["F2b"], f["F255"], f["F256"],
                {"name": "nmeaE", "data": nmea("E"), "kind": "skip"}]
    return out


def hostile():
    """Additional items for C01 / C04."""
    f2 = frames()["F2"]["data"]
    body1024 = b"\x00" * 1024
    res = b"\xd3\x04\x00" + body1024
    res += pinned.crc24q_table(res).to_bytes(3, "big")
    plus = b"\xd3\x00\x03" + f2[3:5]
    plus += pinned.crc24q_table(plus).to_bytes(3, "big")
    minus = b"\xd3\x00\x01" + f2[3:5]
    minus += pinned.crc24q_table(minus).to_bytes(3, "big")
    dmg_crc = f2[:-1] + bytes([f2[-1] ^ 0x01])
    dmg_pay = f2[:3] + bytes([f2[3] ^ 0x80]) + f2[4:]
    out = [
        {"name": "D3", "data": b"\xd3"},
        {"name": "D300", "data": b"\xd3\x00"},
        {"name": "D303FF", "data": b"\xd3\x03\xff"},
        {"name": "B5", "data": b"\xb5"},
        {"name": "B562short", "data": b"\xb5\x62\x01\x02"},
        {"name": "B562len", "data": b"\xb5\x62\x01\x02\xff\x00"},
        {"name": "dollar", "data": b"$"},
        {"name": "dollarGnoLF", "data": b"$GNGGA,1"},
        {"name": "dollarX", "data": b"$XABC\r\n"},
        {"name": "dmgcrc", "data": dmg_crc},
        {"name": "dmgpay", "data": dmg_pay},
        {"name": "lenplus", "data": plus},
        {"name": "lenminus", "data": minus},
        {"name": "D3FF", "data": b"\xd3\xff"},
        {"name": "reserved1024", "data": res},
    ]
    p1005, _, _ = R.build("1005", {}, "fp")
    out.append({"name": "Fbadbody", "data": pinned.frame(p1005[:10])})  # valid CRC, body too short
    out.append({"name": "Fshort1", "data": pinned.frame(b"\x3e")})
    for k in (3, 4, 5, 7):
        out.append({"name": f"trunc{k}", "data": f2[:k]})
    # pseudo frames: a well-formed frame whose preamble byte was replaced and whose CRC was then
    # recomputed over the bytes as they stand (only the 0xD3 test keeps them out)
    for nm, lead in (("P24", 0x24), ("PB5", 0xB5)):
        body = bytes([lead]) + f2[1:-3]
        out.append({"name": nm, "data": body + pinned.crc24q_table(body).to_bytes(3, "big")})
    # damage whose syndrome is all ones (a remainder reduced with % 0xFFFFFF would read as 0)
    e = pinned.solve3(0xFFFFFF)
    out.append({"name": "dmgFFFFFF", "data": f2[:-3] + bytes(a ^ b for a, b in zip(f2[-3:], e))})
    # frame-like items whose trailer is only "valid" when bytes left over from an aborted frame
    # are glued in front of them (state kept across an error path); each is invalid as it stands
    for nm, stale in (("Gstale3", f2[:3]), ("Gstale4", f2[:4]), ("Gstale19", frames()["F19"]["data"][:3])):
        body = b"\xd3\x00\x03" + unknown_payload(3, 4040)
        crc = pinned.crc24q_table(stale + body).to_bytes(3, "big")
        if pinned.crc24q_table(body + crc) != 0:
            out.append({"name": nm, "data": body + crc})
    for it in out:
        it["kind"] = "hostile"
    return out


def hostile_extra():
    """
    Further hostile items, used at depth <= 2 only (so that the product families stay small):
    frames with sync-like junk INSERTED behind the preamble / inside the header (a reader that
    skips the junk but keeps the bytes read so far delivers a frame that never was in the stream),
    and frame-like items that only check out when some trailing bytes are stripped first.
    """
    f = frames()
    out = []
    f2, f19 = f["F2"]["data"], f["F19"]["data"]
    for junk in (b"\x24", b"\xb5", b"\xd3", b"\x00", b"\x24\x24", b"\xb5\x62", b"\xb5\x24\xb5"):
        for pos in (1, 2, 3):
            out.append({"name": f"F2ins{pos}:{junk.hex()}", "data": f2[:pos] + junk + f2[pos:]})
        out.append({"name": f"F19ins1:{junk.hex()}", "data": f19[:1] + junk + f19[1:]})
    content = unknown_payload(4, 4041)
    for nm, suffix in (("crlf", b"\r\n"), ("lf", b"\n"), ("cr", b"\r"), ("nul", b"\x00"), ("sp", b" "),
                       ("nulnul", b"\x00\x00")):
        body = b"\xd3" + (len(content) + len(suffix)).to_bytes(2, "big") + content
        item = body + pinned.crc24q_table(body).to_bytes(3, "big") + suffix
        if not pinned.frame_ok(item):
            out.append({"name": f"Gstrip:{nm}", "data": item})
    # the same with the junk in FRONT of the content (a parser that strips leading white space)
    for nm, prefix in (("lsp", b" "), ("lnul", b"\x00")):
        body = b"\xd3" + (len(content) + len(prefix)).to_bytes(2, "big")
        inner = body + content
        item = body + prefix + content + pinned.crc24q_table(inner).to_bytes(3, "big")
        if not pinned.frame_ok(item):
            out.append({"name": f"Glstrip:{nm}", "data": item})
    # genuine frames of proprietary numbers just above 4076 (the IGS family's special case ends at 4076)
    for num in (4077, 4080, 4095):
        pl = ((num << 4) & 0xFFFF).to_bytes(2, "big") + bytes((num * 7 + i * 29) & 0xFF for i in range(4))
        out.append({"name": f"F{num}", "data": pinned.frame(pl), "payload": pl, "kind": "frame"})
    # a false header whose bogus frame swallows a genuine frame exactly (its "CRC" is junk): the
    # genuine frame is lost (allowed), but must not turn up later, out of stream order
    for nm, inner in (("F2", f2), ("F19", f19)):
        for junk in (b"\x55\x55\x55", b"\x00\xd3\x00"):
            out.append({"name": f"Dfalse:{nm}:{junk.hex()}",
                        "data": b"\xd3" + len(inner).to_bytes(2, "big") + inner + junk})
    for it in out:
        it.setdefault("kind", "hostile")
    return out


def full_alphabet(tier="quick"):
    return wellformed(tier) + hostile()


def by_name(tier="thorough"):
    d = {it["name"]: it for it in full_alphabet(tier) + hostile_extra()}
    for it in frames().values():
        d[it["name"]] = it
    return d


def concat(names, tier="thorough"):
    tbl = by_name(tier)
    return b"".join(tbl[n]["data"] for n in names)
