"""
E1 -- stateless, deviation-bounded choice-tree explorer (DESIGN.md 2.1).

A *body* is an ordinary function ``body(ch) -> observation`` that calls
``ch.choose(n)`` whenever the environment / generator has a decision to make
(0 is the default answer).  ``explore`` re-runs the body from scratch for every
choice sequence with at most ``bound`` non-default answers (bound None = the
full product), depth first, each sequence exactly once.
"""

from __future__ import annotations

from .core import Broken


class ReplayDivergence(Broken):
    """A replayed prefix met a choice point of different arity: harness bug."""


class Chooser:
    def __init__(self, prefix=()):
        self.prefix = list(prefix)
        self.trace = []  # (arity, chosen, label)

    def choose(self, n: int, label: str = "") -> int:
        i = len(self.trace)
        if n <= 0:
            raise Broken(f"choose({n}) at point {i} {label}")
        c = self.prefix[i] if i < len(self.prefix) else 0
        if c >= n:
            raise ReplayDivergence(
                f"choice {c} out of range {n} at point {i} ({label}); prefix={self.prefix}"
            )
        self.trace.append((n, c, label))
        return c

    @property
    def choices(self):
        return [c for _, c, _ in self.trace]

    @property
    def deviations(self):
        return sum(1 for _, c, _ in self.trace if c)


from . import core as _core  # noqa: E402  (watchdog)


def explore(body, bound=None, max_runs=None, cost=None, root=None, root_only_after=None):
    """
    Yield (choices, deviations, observation) for every execution.

    ``cost(label, alt)`` -> deviation cost of taking alternative ``alt`` at a
    point with that label (default 1 for every non-default answer).
    """
    runs = 0
    stack = [((), 0)] if root is None else [(tuple(root), sum(1 for c in root if c))]
    while stack:
        prefix, devs = stack.pop()
        ch = Chooser(prefix)
        # every execution of the real code runs under a wall-clock backstop (code under test that
        # spins for ever must lead to a verdict); cold executions fork and may take a little longer
        obs = _core.watchdog(_core.CASE_LIMIT_S, body, ch)
        runs += 1
        trace = ch.trace
        if len(trace) < len(prefix):
            raise ReplayDivergence(f"prefix {prefix} longer than execution ({len(trace)} points)")
        yield ch.choices, devs, obs
        if max_runs is not None and runs >= max_runs:
            return
        # children: deviate at any point after the prefix
        kids = []
        for i in range(len(prefix), len(trace)):
            n, _, label = trace[i]
            for alt in range(1, n):
                c = 1 if cost is None else cost(label, alt)
                if bound is not None and devs + c > bound:
                    continue
                kids.append((tuple(ch.choices[:i]) + (alt,), devs + c))
        stack.extend(reversed(kids))


def run_fixed(body, choices):
    """Replay one recorded choice sequence (for replays / determinism checks)."""
    ch = Chooser(choices)
    obs = body(ch)
    if len(ch.trace) < len(ch.prefix):
        raise ReplayDivergence(f"recorded choices {choices} longer than execution")
    return ch, obs
