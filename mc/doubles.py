"""
Environment doubles: recording / fault-injecting stream, raw stream for
BufferedReader, fake socket (plain object and real socket.socket subclass).
"""

from __future__ import annotations

import io
import socket


class NonTermination(BaseException):
    """Raised by a double when the code under test exceeds its call budget."""


class FaultStream:
    """
    File-like stream over ``source`` whose every read()/readline() asks the
    chooser how the environment answers:

      0 full      the requested bytes (or what is left; b"" at end of data)
      1 empty     b"" although data remains (timeout); nothing consumed
      2 short-1   a single byte (only offered if more than one byte was due)
      3 short-n   all but the last byte due

    Bytes not returned stay in the stream.  Every call is recorded.
    """

    def __init__(self, source: bytes, chooser=None, budget=None, faults=True, window=40):
        self.source = bytes(source)
        self.pos = 0
        self.ch = chooser
        self.calls = []  # (op, requested, returned_len, answer)
        self.budget = budget if budget is not None else 4 * len(source) + 64
        self.faults = faults
        self.nfaults = 0
        self.window = window  # faults are offered on the first `window` calls and in the last
        # `window` bytes of the source (keeps long streams tractable; stated in the evidence)

    def _tick(self):
        if len(self.calls) >= self.budget:
            raise NonTermination(f"{len(self.calls)} stream calls on {len(self.source)} bytes")

    def _answer(self, due: int, label: str) -> int:
        """-> number of bytes to deliver (<= due)."""
        if self.ch is None or not self.faults or due == 0:
            return due
        if len(self.calls) >= self.window and self.pos < len(self.source) - self.window:
            return due
        menu = [due, 0]
        if due > 1:
            menu.append(1)
        if due > 2:
            menu.append(due - 1)
        c = self.ch.choose(len(menu), label)
        if c:
            self.nfaults += 1
        return menu[c]

    def read(self, n: int = -1) -> bytes:
        self._tick()
        if n is None or n < 0:
            n = len(self.source) - self.pos
        due = min(n, len(self.source) - self.pos)
        k = self._answer(due, f"read({n})@{self.pos}")
        data = self.source[self.pos : self.pos + k]
        self.pos += k
        self.calls.append(("read", n, k, "full" if k == due else "fault"))
        return data

    def readline(self) -> bytes:
        self._tick()
        end = self.source.find(b"\n", self.pos)
        due = (len(self.source) if end < 0 else end + 1) - self.pos
        k = self._answer(due, f"readline@{self.pos}")
        data = self.source[self.pos : self.pos + k]
        self.pos += k
        self.calls.append(("readline", None, k, "full" if k == due else "fault"))
        return data

    @property
    def exhausted(self):
        return self.pos >= len(self.source)


class TypedStream(FaultStream):
    """
    FaultStream whose read()/readline() hand the bytes over as another bytes-like type
    (bytearray: what e.g. a stream built on recv_into / readinto buffers returns).
    """

    def __init__(self, source: bytes, chooser=None, kind=bytearray, **kw):
        super().__init__(source, chooser, **kw)
        self.kind = kind

    def read(self, n: int = -1):
        return self.kind(super().read(n))

    def readline(self):
        return self.kind(super().readline())


class SeekableFaultStream(FaultStream):
    """
    FaultStream that is also SEEKABLE (a log file still being written, a BytesIO with a read
    time-out wrapper): seek/tell/seekable behave like a file's; every seek is recorded.
    """

    def __init__(self, source: bytes, chooser=None, **kw):
        super().__init__(source, chooser, **kw)
        self.seeks = []

    def seekable(self):
        return True

    def tell(self):
        return self.pos

    def seek(self, offset, whence=0):
        new = offset if whence == 0 else self.pos + offset if whence == 1 else len(self.source) + offset
        if new < 0:
            raise ValueError(f"negative seek position {new}")
        self.seeks.append((self.pos, new))
        self.pos = min(new, len(self.source))
        return self.pos


class DribbleRaw(io.RawIOBase):
    """Raw stream returning at most ``step`` bytes per readinto (for BufferedReader)."""

    def __init__(self, source: bytes, step: int):
        super().__init__()
        self.source = bytes(source)
        self.pos = 0
        self.step = step

    def readable(self):
        return True

    def readinto(self, b):
        k = min(len(b), self.step, len(self.source) - self.pos)
        b[:k] = self.source[self.pos : self.pos + k]
        self.pos += k
        return k


class FakeSock:
    """
    Plain-object socket double for SocketWrapper: ``script`` is a list of
    answers consumed one per recv(): an int k = deliver k bytes (capped by
    bufsize and remaining), "timeout", "oserror", "close".  When the script is
    exhausted the chooser (if any) or ``default`` decides.
    """

    def __init__(self, source: bytes, script=(), chooser=None, default="all", max_faults=0,
                 budget=None):
        self.source = bytes(source)
        self.pos = 0
        self.script = list(script)
        self.ch = chooser
        self.default = default
        self.max_faults = max_faults
        self.nfaults = 0
        self.log = []
        self.budget = budget if budget is not None else 4 * len(source) + 64
        self.closed_seen = False
        self.visit = None  # optional hook: called at fresh choice points; True = already explored

    def recv(self, bufsize: int) -> bytes:
        if len(self.log) >= self.budget:
            raise NonTermination(f"{len(self.log)} recv calls on {len(self.source)} bytes")
        if bufsize < 0:
            raise ValueError("negative buffersize in recv")  # as a real socket does
        if bufsize == 0:
            self.log.append((0, 0))
            return b""  # a real socket returns b"" at once for a zero-byte request
        rem = len(self.source) - self.pos
        if self.script:
            ans = self.script.pop(0)
        elif self.ch is not None:
            ans = self._choose(bufsize, rem)
        else:
            ans = min(bufsize, rem) if self.default == "all" else self.default
        if ans == "timeout":
            self.log.append(("timeout", bufsize))
            raise TimeoutError("fake timeout")
        if ans == "oserror":
            self.log.append(("oserror", bufsize))
            raise OSError("fake os error")
        if ans == "close" or rem == 0:
            self.log.append(("close", bufsize))
            self.closed_seen = True
            return b""
        k = max(1, min(int(ans), bufsize, rem))
        data = self.source[self.pos : self.pos + k]
        self.pos += k
        self.log.append((k, bufsize))
        return data

    def _choose(self, bufsize, rem):
        if rem == 0:
            return "close"
        top = min(bufsize, rem)
        menu = list(range(top, 0, -1))  # default: everything that fits
        if self.nfaults < self.max_faults:
            menu += ["timeout", "oserror"]
        if self.visit is not None and len(self.ch.trace) >= len(self.ch.prefix) and self.visit():
            from .bfs import Pruned  # pylint: disable=import-outside-toplevel

            raise Pruned()
        c = self.ch.choose(len(menu), f"recv({bufsize})@{self.pos}")
        ans = menu[c]
        if ans in ("timeout", "oserror"):
            self.nfaults += 1
        return ans

    def send(self, data, **_kw):
        return len(data)


class SegSocket(socket.socket):
    """
    Real socket.socket subclass (RTCMReader only wraps those) whose recv()
    follows a list of segment lengths over ``source``; after the segments are
    used up it delivers everything that fits, then b"" (peer closed).
    """

    def __init__(self, source: bytes = b"", segments=(), faults=()):
        super().__init__(socket.AF_INET, socket.SOCK_STREAM)
        self._src = bytes(source)
        self._pos = 0
        self._segs = list(segments)
        self._faults = dict(faults)  # recv call index -> "timeout" | "oserror"
        self._ncalls = 0
        self.recv_log = []

    def recv(self, bufsize, flags=0):  # pylint: disable=arguments-differ
        i = self._ncalls
        self._ncalls += 1
        if self._ncalls > 8 * len(self._src) + 64:
            raise NonTermination("SegSocket recv budget")
        if bufsize < 0:
            raise ValueError("negative buffersize in recv")
        if bufsize == 0:
            self.recv_log.append(0)
            return b""
        if i in self._faults:
            self.recv_log.append(self._faults[i])
            if self._faults[i] == "timeout":
                raise TimeoutError("fake timeout")
            raise OSError("fake os error")
        rem = len(self._src) - self._pos
        if rem == 0:
            self.recv_log.append(0)
            return b""
        k = self._segs.pop(0) if self._segs else rem
        k = max(1, min(k, bufsize, rem))
        data = self._src[self._pos : self._pos + k]
        self._pos += k
        self.recv_log.append(k)
        return data


class ReadableSegSocket(SegSocket):
    """
    A socket kind that ALSO has file-like methods of its own (as ssl.SSLSocket has read() / write()):
    its read(n) returns at most one received segment -- short, like a TLS record -- so whoever reads
    frames through it directly, without the library's wrapper, gets short reads.  recv() is unchanged.
    """

    def read(self, num=1024, buffer=None):  # pylint: disable=unused-argument
        return self.recv(num)

    def readline(self, limit=-1):  # pylint: disable=unused-argument
        out = b""
        while not out.endswith(b"\n"):
            d = self.recv(1)
            if not d:
                break
            out += d
        return out
