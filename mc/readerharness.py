"""
One execution of the real RTCMReader over a fault-injecting stream double,
recorded call by call.  Shared by C01, C04, C05, C17.
"""

from __future__ import annotations

from . import pinned
from .doubles import FaultStream, NonTermination
from .explore import Chooser


def lib_exceptions():
    """Every exception class the library itself defines (pyrtcm.exceptions)."""
    from pyrtcm import exceptions as E  # pylint: disable=import-outside-toplevel

    return tuple(v for v in vars(E).values()
                 if isinstance(v, type) and issubclass(v, Exception) and v.__module__ == E.__name__)


def execute(source: bytes, choices=(), validate=1, quitonerror=1, parsed=True, labelmsm=1,
            handler=True, faults=True, chooser=None, returns=bytes):
    """
    Drive reader.read() until the source is exhausted and a genuine
    end-of-data has been reported.  -> dict(events, stream, handler_calls, chooser)
    events: ("pair", a, b, raw, parsed) | ("none", pos, genuine) | ("lib", name, pos)
            | ("foreign", name, pos, text) | ("nonterm", pos)
    """
    from pyrtcm import RTCMReader  # pylint: disable=import-outside-toplevel

    ch = chooser if chooser is not None else Chooser(choices)
    if returns == "seekable":
        from .doubles import SeekableFaultStream  # pylint: disable=import-outside-toplevel

        stream = SeekableFaultStream(source, ch, faults=faults)
    elif returns is bytes:
        stream = FaultStream(source, ch, faults=faults)
    else:  # a stream whose read()/readline() hand over another bytes-like type
        from .doubles import TypedStream  # pylint: disable=import-outside-toplevel

        stream = TypedStream(source, ch, returns, faults=faults)
    herrs = []
    reader = RTCMReader(
        stream, validate=validate, quitonerror=quitonerror, parsed=parsed, labelmsm=labelmsm,
        errorhandler=(herrs.append if handler else None),
    )
    lib = lib_exceptions()
    events = []
    horizon = len(source) + 8
    ncalls = 0
    while True:
        ncalls += 1
        if ncalls > horizon + stream.nfaults:
            events.append(("nonterm", stream.pos))
            break
        faults_before = stream.nfaults
        try:
            raw, msg = reader.read()
        except lib as err:
            events.append(("lib", type(err).__name__, stream.pos))
            continue
        except NonTermination:
            events.append(("nonterm", stream.pos))
            break
        except Exception as err:  # pylint: disable=broad-except
            events.append(("foreign", type(err).__name__, stream.pos, str(err)[:120]))
            if stream.exhausted:
                break
            continue
        if raw is None and msg is None:
            genuine = stream.exhausted and stream.nfaults == faults_before
            events.append(("none", stream.pos, genuine))
            if genuine:
                break
            continue
        events.append(("pair", stream.pos - len(raw) if raw is not None else None, stream.pos,
                       raw, msg))
    return {"events": events, "stream": stream, "handler_calls": herrs, "chooser": ch,
            "reader": reader}


def check_pairs(source: bytes, events, out, validate=1, parsed=True):
    """C01 oracle over the returned pairs."""
    prev_b = 0
    for ev in events:
        if ev[0] != "pair":
            continue
        _, a, b, raw, msg = ev
        if not isinstance(raw, (bytes, bytearray)) or a is None or a < 0:
            out.bad("raw-not-bytes", f"read() returned raw={raw!r}")
            continue
        raw = bytes(raw)
        if source[a:b] != raw:
            out.bad("raw-not-contiguous-slice",
                    f"raw {raw[:12].hex()}.. ({len(raw)} B) returned with the stream at {b} is not "
                    f"source[{a}:{b}] = {source[a:b][:12].hex()}..")
            continue
        if a < prev_b:
            out.bad("pairs-overlap", f"pair at [{a},{b}) overlaps the previous one ending at {prev_b}")
        prev_b = b
        if validate and not pinned.frame_ok(raw):
            why = ("preamble" if raw[:1] != b"\xd3" else
                   "reserved-bits" if len(raw) > 1 and raw[1] & 0xFC else
                   "length" if len(raw) < 6 or ((raw[1] & 3) << 8 | raw[2]) != len(raw) - 6 else "crc")
            out.bad(f"malformed-frame-delivered:{why}",
                    f"delivered raw [{a},{b}) = {raw[:8].hex()}..{raw[-3:].hex()} is not a well-formed "
                    f"frame ({why})")
            continue
        if parsed:
            if msg is None:
                out.bad("parsed-missing", f"pair [{a},{b}) has no parsed message")
                continue
            pl = raw[3:-3]
            if bytes(msg.payload) != pl:
                out.bad("payload-not-frame-body",
                        f"parsed.payload {bytes(msg.payload)[:8].hex()}.. != frame body {pl[:8].hex()}..")
            elif len(pl) >= 2 and msg.identity != pinned.ref_identity(pl):
                out.bad("identity-wrong", f"parsed.identity {msg.identity!r} != "
                        f"{pinned.ref_identity(pl)!r}")
