"""Model-checking machinery for the pyrtcm properties (see /verif/DESIGN.md)."""
