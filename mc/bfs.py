"""
E2 -- explicit-state breadth-first search over histories of REAL objects.

A state is the operation history that reaches it; it is rebuilt by replaying
the history on fresh objects (live objects are never copied).  Its canonical
form is a generic snapshot of the object's instance attributes plus the
environment cursor, so two histories are merged only when every attribute and
the cursor agree (merged states have identical futures by determinism).

Each transition is one real API call; inside it the E1 explorer enumerates the
environment's answers.
"""

from __future__ import annotations

from collections import deque

from .core import Broken
from .explore import explore


def snapshot(obj, skip=("logger", "_logger", "_socket", "_stream", "_errorhandler")):
    """Generic canonical form of an object's instance state (no private names relied upon)."""
    items = []
    for k, v in sorted(vars(obj).items()):
        if k in skip:
            continue
        if isinstance(v, (bytes, bytearray)):
            v = bytes(v)
        elif not isinstance(v, (int, str, bool, float, type(None), tuple)):
            v = repr(v)
        items.append((k, v))
    return tuple(items)


class Pruned(BaseException):
    """An execution reached, inside an operation, a configuration already explored."""


class Graph:
    def __init__(self):
        self.states = {}  # canon -> history (first reaching it)
        self.transitions = 0
        self.executions = 0
        self.max_depth = 0
        self.fixed_point = False
        self.violations = []  # (sig, msg, history)
        self.outcomes = set()
        self.pruned = 0
        self.midseen = set()


def bfs(initial, ops, step, canon_of, max_states=200000, max_depth=None):
    """
    initial(ch) -> (ctx) builds fresh objects, possibly consuming choices (e.g. the
        constructor's own environment interaction); returns a context object.
    ops: list of operation descriptors.
    step(ctx, op, ch, record) executes ONE operation on ctx with chooser ch and
        returns a list of (sig, msg) invariant violations; ``record`` is the
        per-history list the harness appends the environment answers to.
    canon_of(ctx) -> hashable canonical state.

    Histories are lists of (op_index or 'init', choices tuple).
    """
    g = Graph()
    frontier = deque()

    def rebuild(hist):
        """Replay a history exactly; returns ctx."""
        from .explore import Chooser  # pylint: disable=import-outside-toplevel

        ctx = None
        for opi, choices in hist:
            ch = Chooser(choices)
            if opi == "init":
                ctx = initial(ch)
            else:
                step(ctx, ops[opi], ch, None)
            if len(ch.trace) != len(choices):
                raise Broken(f"replay divergence at {opi}: {len(ch.trace)} points, "
                             f"recorded {len(choices)}")
        return ctx

    # initial states
    def init_body(ch):
        ctx = initial(ch)
        return ctx

    for choices, _d, ctx in explore(init_body, bound=None):
        g.executions += 1
        hist = [("init", tuple(choices))]
        for sig, msg in getattr(ctx, "violations", []):
            g.violations.append((sig, msg, hist))
        key = canon_of(ctx)
        if key not in g.states:
            g.states[key] = hist
            frontier.append(hist)
    while frontier:
        hist = frontier.popleft()
        depth = len(hist) - 1
        g.max_depth = max(g.max_depth, depth)
        if max_depth is not None and depth >= max_depth:
            continue
        for opi, op in enumerate(ops):
            def body(ch, hist=hist, op=op):
                ctx = rebuild(hist)
                try:
                    viol = step(ctx, op, ch, g.midseen)
                except Pruned:
                    return None, None
                return ctx, viol

            for choices, _d, (ctx, viol) in explore(body, bound=None):
                g.executions += 1
                if ctx is None:
                    g.pruned += 1
                    continue
                g.transitions += 1
                nh = hist + [(opi, tuple(choices))]
                for sig, msg in viol:
                    g.violations.append((sig, msg, nh))
                key = canon_of(ctx)
                g.outcomes.add(hash((key, opi)))
                if key not in g.states:
                    if len(g.states) >= max_states:
                        return g
                    g.states[key] = nh
                    frontier.append(nh)
    g.fixed_point = True
    return g
