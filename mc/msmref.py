"""Reference MSM mask decoder over the pinned RTCM 10403.3 tables."""

from __future__ import annotations

import itertools

from . import pinned


def set_bits(mask: int, width: int):
    """1-based IDs of set bits, bit 1 = most significant."""
    return [i for i in range(1, width + 1) if mask >> (width - i) & 1]


def decode_masks(base: int, sat: int, sig: int, cell: int):
    """-> dict(nsat, nsig, ncell, prn=[labels], cells=[(prn label, sig id, rinex code)])"""
    sats = set_bits(sat, 64)
    sigs = set_bits(sig, 32)
    ncells = len(sats) * len(sigs)
    cells = []
    idx = 0
    for s in sats:
        for g in sigs:
            idx += 1
            if cell >> (ncells - idx) & 1:
                cells.append((pinned.prn_label(base, s) or pinned.NA, g,
                              pinned.rinex_code(base, g) or pinned.NA))
    return {
        "nsat": len(sats), "nsig": len(sigs), "ncell": len(cells),
        "prn": [pinned.prn_label(base, s) or pinned.NA for s in sats],
        "cells": cells, "sats": sats, "sigs": sigs,
    }


def masks_popcount_le(width, k):
    out = [0]
    for r in range(1, k + 1):
        for combo in itertools.combinations(range(width), r):
            m = 0
            for b in combo:
                m |= 1 << (width - 1 - b)
            out.append(m)
    return out


def first_n(width, n, offset=0):
    m = 0
    for i in range(n):
        m |= 1 << (width - 1 - offset - i)
    return m
