"""
Shared plumbing: locating the tree under test, parallel map, evidence, replay
files, known-findings handling.

Every check is structured as

    cases (an exhaustive enumeration, deterministic order)  x  judge(case)

where ``judge`` executes the real pyrtcm code on one JSON-serialisable case and
returns a :class:`Outcome`.  ``run.py --replay file`` calls ``judge`` on the
stored case with plain calls (no explorer).
"""

from __future__ import annotations

import hashlib
import json
import multiprocessing as mp
import os
import sys
import time
import traceback
from dataclasses import dataclass, field

VERIF = os.path.dirname(os.path.dirname(os.path.abspath(__file__)))
REPO = os.environ.get("PYRTCM_REPO", "/repo")
SRC = os.environ.get("PYRTCM_SRC", os.path.join(REPO, "src"))
OUT = os.environ.get("VERIF_OUT_DIR", os.path.join(VERIF, "out"))
EVIDENCE_DIR = os.environ.get("VERIF_EVIDENCE_DIR", os.path.join(VERIF, "evidence"))
KNOWN = os.path.join(VERIF, "known_findings.json")
NPROC = int(os.environ.get("VERIF_NPROC", "16"))


class Broken(BaseException):
    """
    The harness itself is broken (nondeterminism, wrong tree, ...): exit 2.
    Derives from BaseException so that the broad ``except Exception`` clauses which the
    judges put around calls into pyrtcm can never mistake a harness fault for a violation.
    """


def require(cond, msg="harness invariant violated"):
    """assert for harness code: raises Broken, never AssertionError."""
    if not cond:
        raise Broken(msg)


def bootstrap():
    """Put the tree under test first on sys.path and check it is the one imported."""
    if sys.path[0] != SRC:
        sys.path.insert(0, SRC)
    sys.dont_write_bytecode = True
    import pyrtcm  # pylint: disable=import-outside-toplevel

    got = os.path.realpath(pyrtcm.__file__)
    if not got.startswith(os.path.realpath(SRC) + os.sep):
        raise Broken(f"pyrtcm imported from {got}, expected under {SRC}")
    import logging  # pylint: disable=import-outside-toplevel

    # the library logs through the std logging module; keep stderr quiet but
    # leave propagation alone (C05 attaches its own counting handler).
    logging.getLogger("pyrtcm").addHandler(logging.NullHandler())
    logging.lastResort = None
    return pyrtcm


def h64(obj) -> int:
    """Stable 64-bit hash of a repr-able observation."""
    if not isinstance(obj, (bytes, bytearray)):
        obj = repr(obj).encode("utf-8", "backslashreplace")
    return int.from_bytes(hashlib.blake2b(obj, digest_size=8).digest(), "big")


@dataclass
class Outcome:
    """Result of judging one case on the real code."""

    violations: list = field(default_factory=list)  # list of (sig, message)
    nontrivial: bool = True
    obs: object = None  # hashable-by-repr observation (for distinct outcome counts)
    states: int = 0  # model-checking bookkeeping (optional)
    transitions: int = 0
    extra: dict = field(default_factory=dict)  # additive integer counters

    def bad(self, sig: str, msg: str):
        self.violations.append((sig, msg))


@dataclass
class Stats:
    """Aggregated over all cases of a check."""

    evaluations: int = 0
    nontrivial: int = 0
    outcomes: set = field(default_factory=set)
    states: int = 0
    transitions: int = 0
    state_keys: set = field(default_factory=set)
    violations: list = field(default_factory=list)  # (sig, msg, case)
    samples: list = field(default_factory=list)
    extra: dict = field(default_factory=dict)
    capped: bool = False
    notes: list = field(default_factory=list)

    def add(self, case, out: Outcome, keep_sample=False):
        self.evaluations += 1
        if out.nontrivial:
            self.nontrivial += 1
        if out.obs is not None:
            self.outcomes.add(out.obs if isinstance(out.obs, int) else h64(out.obs))
        self.states += out.states
        self.transitions += out.transitions
        for k, v in out.extra.items():
            if isinstance(v, (set, frozenset)):
                self.extra.setdefault(k, set()).update(v)
            elif isinstance(v, dict):
                d = self.extra.setdefault(k, {})
                for kk, vv in v.items():
                    d[kk] = d.get(kk, 0) + vv
            else:
                self.extra[k] = self.extra.get(k, 0) + v
        for sig, msg in out.violations:
            sc = self.extra.setdefault("violation_signatures", {})
            sc[sig] = sc.get(sig, 0) + 1
            if sc[sig] > 3:
                continue  # keep at most three examples per signature
            if len(self.violations) < 200:
                self.violations.append((sig, msg, case))
            else:
                self.extra["violations_dropped"] = self.extra.get("violations_dropped", 0) + 1
        if keep_sample and len(self.samples) < 6:
            self.samples.append(case)

    def merge(self, other: "Stats"):
        self.evaluations += other.evaluations
        self.nontrivial += other.nontrivial
        self.outcomes |= other.outcomes
        self.states += other.states
        self.transitions += other.transitions
        self.state_keys |= other.state_keys
        for v in other.violations:
            if len(self.violations) < 400:
                self.violations.append(v)
        for s in other.samples:
            if len(self.samples) < 8:
                self.samples.append(s)
        for k, v in other.extra.items():
            if isinstance(v, (set, frozenset)):
                self.extra.setdefault(k, set()).update(v)
            elif isinstance(v, dict):
                d = self.extra.setdefault(k, {})
                for kk, vv in v.items():
                    d[kk] = d.get(kk, 0) + vv
            else:
                self.extra[k] = self.extra.get(k, 0) + v
        self.capped = self.capped or other.capped
        self.notes += other.notes


# ---------------------------------------------------------------------------
# parallel map over work items
# ---------------------------------------------------------------------------

_WORKER_FN = None


class _BrokenMarker:
    """Carries a harness fault out of a pool worker (a BaseException would kill the worker)."""

    def __init__(self, msg):
        self.msg = msg


def _call(item):
    global _TIMEOUTS  # pylint: disable=global-statement
    if _TIMEOUTS >= 3 and _WORK_TIMEOUTS >= 1:
        st = Stats()
        st.capped = True
        st.notes.append("work item skipped after repeated watchdog time-outs in this worker")
        return st
    try:
        return _WORKER_FN(item)
    except WatchdogTimeout as err:
        # an execution outside any judge() (an explorer body) did not return: a verdict, not a hang
        globals()["_WORK_TIMEOUTS"] = _WORK_TIMEOUTS + 1
        _TIMEOUTS += 3
        st = Stats()
        out = Outcome()
        out.bad("nontermination:watchdog", f"an execution of work item {str(item)[:160]!r} did not finish ({err})")
        st.add({"kind": "work-item", "item": str(item)[:400]}, out)
        st.capped = True
        return st
    except Broken as err:
        return _BrokenMarker(f"{err}\n{traceback.format_exc()}")
    except BaseException as err:  # pylint: disable=broad-except
        return _BrokenMarker(
            f"harness error in work item {str(item)[:200]!r}: {err!r}\n{traceback.format_exc()}")


def pmap(fn, items, nproc=None, chunksize=1, maxtasksperchild=None):
    """
    Deterministic parallel map: ``fn(item) -> Stats`` for every item, merged in
    item order.  Uses fork so that tables built in the parent are shared.
    """
    global _WORKER_FN  # pylint: disable=global-statement
    items = list(items)
    nproc = min(nproc or NPROC, max(1, len(items)))
    total = Stats()
    _WORKER_FN = fn
    if nproc <= 1 or os.environ.get("VERIF_SERIAL"):
        for it in items:
            res = _call(it)
            if isinstance(res, _BrokenMarker):
                raise Broken(res.msg)
            total.merge(res)
        return total
    ctx = mp.get_context("fork")
    with ctx.Pool(nproc, maxtasksperchild=maxtasksperchild) as pool:
        for st in pool.imap(_call, items, chunksize):
            if isinstance(st, _BrokenMarker):
                pool.terminate()
                raise Broken(st.msg)
            total.merge(st)
    return total


class WatchdogTimeout(BaseException):
    """Wall-clock backstop fired (BaseException so library catch-alls cannot swallow it)."""


def watchdog(seconds, fn, *args, **kw):
    """Run fn under a wall-clock alarm; raises WatchdogTimeout if it does not return in time."""
    import signal  # pylint: disable=import-outside-toplevel

    def _fire(_sig, _frm):
        raise WatchdogTimeout(f"no return within {seconds}s")

    if signal.getitimer(signal.ITIMER_REAL)[0] > 0:
        return fn(*args, **kw)  # an outer watchdog is already running: it stays in charge
    old = signal.signal(signal.SIGALRM, _fire)
    signal.setitimer(signal.ITIMER_REAL, seconds)
    try:
        return fn(*args, **kw)
    finally:
        signal.setitimer(signal.ITIMER_REAL, 0)
        signal.signal(signal.SIGALRM, old)


def chunks(seq, n):
    """Split a list into consecutive chunks of at most n."""
    seq = list(seq)
    return [seq[i : i + n] for i in range(0, len(seq), n)]


def passed_through_library(err) -> str | None:
    """Location of the last frame of the library under test on the exception's traceback."""
    tb, last = err.__traceback__, None
    while tb is not None:
        fn = tb.tb_frame.f_code.co_filename
        if fn.startswith(SRC.rstrip("/") + "/"):
            last = f"{os.path.basename(fn)}:{tb.tb_lineno} in {tb.tb_frame.f_code.co_name}"
        tb = tb.tb_next
    return last


CASE_LIMIT_S = 60
CASE_LIMIT_AGAIN_S = 10
_TIMEOUTS = 0
_WORK_TIMEOUTS = 0


def guard(judge):
    """
    Decorator for a check's judge(): an exception that escapes THROUGH library code and that the
    judge's own oracles did not expect is reported as a violation of the property (the library let
    something out that the harness, written against the property, had no reason to catch) instead
    of taking the whole check down as a broken harness.  Exceptions that never touched a library
    frame are harness faults and stay fatal.
    """
    import functools  # pylint: disable=import-outside-toplevel

    @functools.wraps(judge)
    def wrapper(case, *args, **kw):
        global _TIMEOUTS  # pylint: disable=global-statement
        if _TIMEOUTS >= 3:
            # this process has already reported three hung cases: the verdict is settled, the
            # remaining cases of the work item are not executed (each would cost its time limit)
            out = Outcome()
            out.nontrivial = False
            out.extra["cases_skipped_after_repeated_timeouts"] = 1
            return out
        import signal  # pylint: disable=import-outside-toplevel

        if signal.getitimer(signal.ITIMER_REAL)[0] > 0:
            # an outer watchdog (a work item's own backstop) is in charge: its time-out must reach IT
            try:
                return judge(case, *args, **kw)
            except Broken:
                raise
            except Exception as err:  # pylint: disable=broad-except
                where = passed_through_library(err)
                if where is None:
                    raise Broken(f"harness exception {err!r}\n{traceback.format_exc()}") from err
                out = Outcome()
                out.bad(f"exception-escapes-library:{type(err).__name__}",
                        f"{type(err).__name__}: {err} escaped from the library ({where}) where the "
                        f"check expected a result or a library exception")
                return out
        try:
            # wall-clock backstop for every single case: library code that spins for ever must
            # yield a verdict, not a hung check (generous the first time, short once it has fired)
            return watchdog(CASE_LIMIT_S if _TIMEOUTS == 0 else CASE_LIMIT_AGAIN_S, judge, case, *args, **kw)
        except WatchdogTimeout as err:
            _TIMEOUTS += 1
            out = Outcome()
            out.bad("nontermination:watchdog",
                    f"the case did not finish ({err}); cases of this check take milliseconds to seconds")
            return out
        except Broken:
            raise
        except Exception as err:  # pylint: disable=broad-except
            where = passed_through_library(err)
            if where is None:
                raise Broken(f"harness exception {err!r}\n{traceback.format_exc()}") from err
            out = Outcome()
            out.bad(f"exception-escapes-library:{type(err).__name__}",
                    f"{type(err).__name__}: {err} escaped from the library ({where}) where the "
                    f"check expected a result or a library exception")
            return out

    return wrapper


def run_cases(judge, cases, sample_every=0):
    """Sequentially judge cases -> Stats (used inside workers)."""
    st = Stats()
    for i, case in enumerate(cases):
        out = judge(case)
        st.add(case, out, keep_sample=(sample_every and i % sample_every == 0))
    return st


def _in_child(fn, *args):
    """Run fn(*args) in a forked child and return its (picklable) result."""
    import pickle  # pylint: disable=import-outside-toplevel

    rfd, wfd = os.pipe()
    pid = os.fork()
    if pid == 0:
        code = 0
        try:
            os.close(rfd)
            try:
                blob = pickle.dumps(("ok", fn(*args)))
            except BaseException as err:  # pylint: disable=broad-except
                blob = pickle.dumps(("err", f"{type(err).__name__}: {err}\n{traceback.format_exc()}"))
            with os.fdopen(wfd, "wb") as fh:
                fh.write(blob)
        except BaseException:  # pylint: disable=broad-except
            code = 1
        finally:
            os._exit(code)  # pylint: disable=protected-access
    os.close(wfd)
    with os.fdopen(rfd, "rb") as fh:
        blob = fh.read()
    os.waitpid(pid, 0)
    if not blob:
        raise Broken("child process died without a result")
    tag, val = pickle.loads(blob)
    if tag != "ok":
        raise Broken(f"child process failed: {val}")
    return val


def in_child_timeout(fn, timeout, *args):
    """
    Run fn(*args) in a forked child; if no result arrives within `timeout` seconds the child is
    KILLED (a hang inside C code -- a regular-expression match, a C-level loop -- never returns to
    the interpreter, so no in-process alarm handler can interrupt it).  -> ("ok", value) |
    ("timeout", None) | ("died", None)
    """
    import pickle  # pylint: disable=import-outside-toplevel
    import select  # pylint: disable=import-outside-toplevel
    import signal  # pylint: disable=import-outside-toplevel

    rfd, wfd = os.pipe()
    pid = os.fork()
    if pid == 0:
        code = 0
        try:
            os.close(rfd)
            signal.alarm(0)
            try:
                blob = pickle.dumps(("ok", fn(*args)))
            except BaseException as err:  # pylint: disable=broad-except
                blob = pickle.dumps(("err", f"{type(err).__name__}: {err}\n{traceback.format_exc()}"))
            with os.fdopen(wfd, "wb") as fh:
                fh.write(blob)
        except BaseException:  # pylint: disable=broad-except
            code = 1
        finally:
            os._exit(code)  # pylint: disable=protected-access
    os.close(wfd)
    blob, deadline = b"", time.time() + timeout
    with os.fdopen(rfd, "rb", buffering=0) as fh:
        while True:
            left = deadline - time.time()
            if left <= 0:
                os.kill(pid, signal.SIGKILL)
                os.waitpid(pid, 0)
                return ("timeout", None)
            try:
                ready, _, _ = select.select([fh], [], [], left)
            except InterruptedError:
                continue
            if ready:
                part = fh.read(65536)
                if not part:
                    break
                blob += part
    os.waitpid(pid, 0)
    if not blob:
        return ("died", None)
    tag, val = pickle.loads(blob)
    if tag != "ok":
        raise Broken(f"child process failed: {val}")
    return ("ok", val)


INTERPRETER_MODES = (("-O",), ("-OO",), ("-W", "error"), ("-W", "error", "-O", "-X", "dev"))


def interpreter_modes(pid, cases, st, modes=INTERPRETER_MODES):
    """
    The host's interpreter configuration is an environment dimension too: the given cases of check
    `pid` are judged again, by the check's own judge(), in child interpreters started with each
    set of flags (assert statements and docstrings stripped, warnings turned into errors, the
    development mode).  Violations found there are added to `st`; the case records the flags so that
    a replay restarts the interpreter the same way.
    """
    import pickle  # pylint: disable=import-outside-toplevel
    import subprocess  # pylint: disable=import-outside-toplevel
    import tempfile  # pylint: disable=import-outside-toplevel

    cases = list(cases)
    fd, path = tempfile.mkstemp(prefix=f"{pid}-modes-", suffix=".pickle", dir="/var/tmp")
    try:
        with os.fdopen(fd, "wb") as fh:
            pickle.dump({"pid": pid, "cases": cases}, fh)
        procs = []
        for flags in modes:
            env = dict(os.environ, VERIF_INTERP="1")
            procs.append((flags, subprocess.Popen(
                [sys.executable, *flags, os.path.join(VERIF, "run.py"), "--judge-file", path],
                stdout=subprocess.PIPE, stderr=subprocess.PIPE, env=env)))
        for flags, proc in procs:
            try:
                so, se = proc.communicate(timeout=900)
            except subprocess.TimeoutExpired:
                proc.kill()
                so, se = proc.communicate()
                so = b""
            tag = " ".join(flags)
            found = None
            for line in so.decode("utf-8", "replace").splitlines():
                if line.startswith("MODE-RESULT "):
                    found = json.loads(line[12:])
            if found is None:
                out = Outcome()
                out.bad("interpreter-mode:unusable",
                        f"under `python {tag}` the cases could not be judged at all (exit "
                        f"{proc.returncode}): {se.decode('utf-8', 'replace')[-400:]}")
                st.add(dict(cases[0], interp_flags=list(flags)), out)
                continue
            for idx, viols in found["violations"]:
                out = Outcome()
                for sig, msg in viols:
                    out.bad(f"{sig}:interpreter-mode", f"under `python {tag}`: {msg}")
                st.add(dict(cases[idx], interp_flags=list(flags)), out)
            st.extra["interpreter_mode_cases"] = st.extra.get("interpreter_mode_cases", 0) + found["judged"]
    finally:
        try:
            os.unlink(path)
        except OSError:
            pass


def check_deterministic(judge, case):
    """
    Harness determinism: the same case judged in two separately forked children of this
    process must give identical observations (exit 2 otherwise).  Each child starts from the
    same process image, so state that the LIBRARY keeps between calls cannot make the two runs
    differ -- only nondeterminism of the harness (time, hashing, scheduling) can.
    """

    def once():
        o = judge(case)
        return (o.obs, o.violations, o.states, o.transitions)

    a = _in_child(once)
    b = _in_child(once)
    if a != b:
        raise Broken(f"nondeterministic harness on case {str(case)[:300]}")


# ---------------------------------------------------------------------------
# evidence / replay / known findings
# ---------------------------------------------------------------------------


def jsonable(x):
    """Make a case JSON-serialisable (bytes -> hex strings)."""
    if isinstance(x, (bytes, bytearray)):
        return {"hex": bytes(x).hex()}
    if isinstance(x, dict):
        return {str(k): jsonable(v) for k, v in x.items()}
    if isinstance(x, (list, tuple)):
        return [jsonable(v) for v in x]
    if isinstance(x, (set, frozenset)):
        return sorted(jsonable(v) for v in x)
    if isinstance(x, (int, float, str, bool)) or x is None:
        return x
    return repr(x)


def unjson(x):
    """Inverse of jsonable for hex strings."""
    if isinstance(x, dict):
        if set(x) == {"hex"}:
            return bytes.fromhex(x["hex"])
        return {k: unjson(v) for k, v in x.items()}
    if isinstance(x, list):
        return [unjson(v) for v in x]
    return x


def load_known():
    try:
        with open(KNOWN, encoding="utf-8") as fh:
            return json.load(fh)
    except FileNotFoundError:
        return {"open": [], "fixed": []}


def write_replay(pid, sig, msg, case):
    os.makedirs(os.path.join(OUT, "replays"), exist_ok=True)
    body = {"property": pid, "signature": sig, "message": msg, "case": jsonable(case)}
    tag = hashlib.blake2b(json.dumps(body, sort_keys=True).encode(), digest_size=5).hexdigest()
    path = os.path.join(OUT, "replays", f"{pid}-{tag}.json")
    with open(path, "w", encoding="utf-8") as fh:
        json.dump(body, fh, indent=1, sort_keys=True)
    return path


def finish(pid, tier, seed, level, stats: Stats, rule, t0, assumptions, extra_cov=None,
           exhaustive=True):
    """
    Write evidence, print VIOLATION / KNOWN-FINDING lines, return exit code.
    """
    known = load_known()
    open_sigs = {(e["property"], e["signature"]): e for e in known.get("open", [])}
    new, seen_known = [], {}
    for sig, msg, case in stats.violations:
        if (pid, sig) in open_sigs:
            seen_known.setdefault(sig, (msg, case))
        else:
            new.append((sig, msg, case))
    for sig, (msg, _case) in sorted(seen_known.items()):
        print(f"KNOWN-FINDING: property={pid} {sig}: {open_sigs[(pid, sig)].get('what', msg)}")
    reported = set()
    for sig, msg, case in new:
        if sig in reported and len(reported) >= 1:
            continue  # one replay per signature is enough
        reported.add(sig)
        path = write_replay(pid, sig, msg, case)
        print(f"VIOLATION property={pid} replay={path}")
        print(f"  signature: {sig}\n  {msg[:600]}")

    cov = {
        "evaluations": stats.evaluations,
        "distinct_nontrivial": stats.nontrivial,
        "distinct_outcomes": len(stats.outcomes),
        "rule": rule,
        "samples": [jsonable(s) for s in stats.samples[:6]] or ["(no sample recorded)"],
        "exhaustive": bool(exhaustive and not stats.capped),
        "capped": stats.capped,
    }
    if level == "model_checking":
        cov["states"] = max(stats.states, len(stats.state_keys))
        cov["transitions"] = stats.transitions
        cov["traces_validated_against_impl"] = stats.evaluations
    for k, v in stats.extra.items():
        cov[k] = len(v) if isinstance(v, (set, frozenset)) else v
    if stats.extra.get("violation_signatures"):
        print("  violation signatures:", json.dumps(stats.extra["violation_signatures"], sort_keys=True))
    if stats.notes:
        cov["notes"] = stats.notes[:20]
    if extra_cov:
        cov.update(extra_cov)
    ev = {
        "property_id": pid,
        "tier": tier,
        "seed": seed,
        "level": level,
        "coverage": cov,
        "assumptions": assumptions,
        "wall_s": round(time.time() - t0, 3),
        "violations": len(new),
        "known_findings_seen": sorted(seen_known),
        "tree": SRC,
    }
    os.makedirs(EVIDENCE_DIR, exist_ok=True)
    tmp = os.path.join(EVIDENCE_DIR, f".{pid}.json.tmp")
    with open(tmp, "w", encoding="utf-8") as fh:
        json.dump(ev, fh, indent=1, sort_keys=True)
    os.replace(tmp, os.path.join(EVIDENCE_DIR, f"{pid}.json"))
    print(
        f"{pid} tier={tier} seed={seed} evaluations={stats.evaluations} "
        f"nontrivial={stats.nontrivial} outcomes={len(stats.outcomes)} "
        f"states={cov.get('states', '-')} transitions={cov.get('transitions', '-')} "
        f"capped={stats.capped} violations={len(new)} known={len(seen_known)} "
        f"wall={ev['wall_s']}s"
    )
    return 1 if new else 0
