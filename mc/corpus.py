"""
Message corpus K (DESIGN.md section 3): for every defined identity two or more
payloads of different shapes with fingerprint values, unknown numbers, and
failing payloads.  Built from the working tree by the reference encoder.
"""

from __future__ import annotations

from . import pinned
from . import refmodel as R
from . import shapes as S

UNKNOWN_NUMBERS = [0, 1, 999, 1018, 1069, 1070, 1078, 1138, 1229, 1231, 4072, 4095]
UNKNOWN_SUBTYPES = [0, 20, 128, 200, 255]


def _pick(shapes, sizes, n):
    """n shapes spread over the size-ordered list, always including smallest and a big one."""
    order = sorted(range(len(shapes)), key=lambda k: (sizes[k], k))
    order = [k for k in order if sizes[k] <= 4096] or order[:1]
    if len(order) <= n:
        return [shapes[k] for k in order]
    if n == 1:
        return [shapes[order[(2 * len(order)) // 3]]]
    idx = sorted({round(i * (len(order) - 1) / (n - 1)) for i in range(n)})
    return [shapes[order[i]] for i in idx]


def build(tier="quick", per_identity=None):
    """-> list of dicts: name, payload, identity, kind ('ok' | 'unknown' | 'fail')"""
    per_identity = per_identity or (3 if tier == "quick" else 6)
    items = []
    for identity, _tbl in R.all_identities():
        try:
            shp = S.enumerate_shapes(identity, "quick")
        except R.BadDefinition:
            continue
        sizes = []
        ok = []
        for s in shp:
            try:
                _, nbits = R.layout(identity, R.Valuation(s, "fp"))
            except (R.BadDefinition, R.TooLong):
                continue
            if nbits <= R.MAXBITS:
                ok.append(s)
                sizes.append(nbits)
        for k, shape in enumerate(_pick(ok, sizes, per_identity)):
            payload, _occs, _n = R.build(identity, shape, "fp")
            items.append({"name": f"{identity}#{k}", "payload": payload, "identity": identity,
                          "shape": shape, "kind": "ok"})
    fp = bytes((29 * i + 7) & 0xFF for i in range(40))
    for num in UNKNOWN_NUMBERS:
        for k, tail in enumerate((b"", fp[:9], fp)):
            payload = (num << 4 | (0xA if k else 0)).to_bytes(2, "big") + tail
            items.append({"name": f"unk{num}#{k}", "payload": payload, "identity": str(num),
                          "shape": None, "kind": "unknown"})
    for sub in UNKNOWN_SUBTYPES:
        v, _ = pinned.header(4076, sub, 1)
        payload = (v << 1).to_bytes(3, "big") + fp[:11]
        items.append({"name": f"unk4076_{sub:03d}", "payload": payload,
                      "identity": f"4076_{sub:03d}", "shape": None, "kind": "unknown"})
    # a payload that is itself a complete valid frame (tunnelled traffic; number 0xD30 = 3376)
    inner = next((i["payload"] for i in items if i["identity"] == "1005"), b"\x3e\xd0\x00\x01")
    items.append({"name": "nested-frame", "payload": pinned.frame(inner), "identity": "3376",
                  "shape": None, "kind": "unknown"})
    items.append({"name": "nested-frame2", "payload": pinned.frame(pinned.frame(b"\x3e\xd0\x00\x01")),
                  "identity": "3376", "shape": None, "kind": "unknown"})
    # failing payloads: truncated versions of some ok items
    for it in [i for i in items if i["kind"] == "ok"][:: 7 if tier == "quick" else 3]:
        p = it["payload"]
        lo = 3 if it["identity"].startswith("4076") else 2
        if len(p) - 1 >= lo:
            items.append({"name": it["name"] + "!cut", "payload": p[: max(lo, len(p) // 2)],
                          "identity": it["identity"], "shape": it["shape"], "kind": "fail"})
    return items
